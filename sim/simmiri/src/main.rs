//! C19, stratum S2: real threads under Miri's seeded scheduler (preemption inside interpreter
//! calls, which shuttle cannot produce) plus Miri's data-race and UB detection.
//! T threads share one compiled filter per program and run all programs R times; every
//! stream must equal the stream computed sequentially before the threads started.
//! Usage (by the C19 check): cargo +nightly miri run -p simmiri -- <threads> <reps> [<programs>]
use jaq_core::load::{Arena, File, Loader};
use jaq_core::{data::JustLut, Compiler, Ctx, Filter, Vars};
use jaq_json::Val;
use std::sync::Arc;

type F = Filter<JustLut<Val>>;

/// Core-language programs (no prelude needed): labels created lazily and nested, folds,
/// closures, recursion, updates - everything that allocates per-run identifiers or state.
const PROGRAMS: &[&str] = &[
    "label $a | (1, (label $b | (2, break $a, 3)), 4)",
    "label $a | (1, 2, (label $b | (3, (label $c | (4, break $b, 5)), 6)), 7, break $a, 8)",
    "def f: label $l | (., (if . < 3 then . + 1 | f else break $l end), 10 * .); 0 | f",
    "[label $x | (1, 2, break $x, 3)] | .[0] + .[1]",
    "reduce (1, 2, 3, 4) as $x (0; . + $x)",
    "[foreach (1, 2, 3) as $x (0; . + $x; [$x, .])]",
    "def g(f): [f, f]; g(label $q | (1, break $q))",
    "[1, [2, 3]] | .[1][0] = 9 | .[0] += 1",
    "{a: 1, b: [1, 2]} | .b[1] as $y | {(\"k\\($y)\"): .a}",
    "[.[]?] | (. as $d | [$d, $d]) | .[0] == .[1]",
    // native filters of jaq-std / jaq-json called directly (no prelude): anything they keep
    // between calls - a cache, a lazily initialised table - is shared by the threads
    "\"caaat AAa\" | [matches(\"a+\"; \"g\")] | length",
    "\"caaat AAa\" | [matches(\"a+\"; \"gl\")] | length",
    "\"caaat AAa\" | [matches(\"a+\"; \"gi\")] | length",
    "\"<a href=\\\"x\\\">&</a>\" | escape_html",
    "\"&lt;b&gt; &amp; &quot;\" | unescape_html",
    "\"aGVsbG8=\" | decode_base64",
    "\"a b/c\" | encode_uri | decode_uri",
    "[3, 1, [2], \"x\"] | sort | tojson | fromjson",
    "\"AbC\" | ascii_downcase | explode | implode | ltrimstr(\"a\")",
    "{\"b\": 1, \"a\": [1, 2]} | keys_unsorted, length, has(\"a\"), contains({\"a\": [1]})",
];

/// One value of which every thread holds a handle; these programs restructure it (copy on write).
const SHARED_VALUE: &str = "{a: 1, b: [2, {c: 3, d: 4, e: 5}], c: \"x\", d: [1], e: {f: 1}}";
const SHARED_PROGRAMS: &[&str] = &[
    "(.a |= empty), (.c |= empty)",
    ".b[1] |= (.c |= empty)",
    ".a = [.c] | .e.f += 1",
    "[.[]] | (.[1] |= empty) | length",
    "(.b |= empty) | keys_unsorted",
    // a decoder at work inside the run, on every thread at once
    "((\"[\" * 100) + (\"]\" * 100)) | fromjson | tojson | length",
];

fn compile(code: &str) -> F {
    let arena = Arena::default();
    let modules = Loader::new(std::iter::empty()).load(&arena, File { code, path: () }).expect("parse");
    let funs = jaq_core::funs().chain(jaq_std::funs()).chain(jaq_json::funs());
    Compiler::default().with_funs(funs).compile(modules).expect("compile")
}

fn run(f: &F, input: Val) -> Vec<String> {
    let ctx = Ctx::<JustLut<Val>>::new(&f.lut, Vars::new([]));
    f.id.run((ctx, input))
        .take(64)
        .map(|r| match r {
            Ok(v) => format!("= {v}"),
            Err(e) => match e.get_err() {
                Ok(e) => format!("! {e}"),
                Err(_) => "! <escaped control flow>".to_string(),
            },
        })
        .collect()
}

fn main() {
    let args: Vec<usize> = std::env::args().skip(1).filter_map(|s| s.parse().ok()).collect();
    let threads = args.first().copied().unwrap_or(3);
    let reps = args.get(1).copied().unwrap_or(2);
    // how many of the programs to run (the first 10 need no native of jaq-std: much cheaper)
    let count = args.get(2).copied().unwrap_or(PROGRAMS.len()).min(PROGRAMS.len());
    let filters: Arc<Vec<F>> = Arc::new(PROGRAMS[..count].iter().map(|p| compile(p)).collect());
    let alone: Arc<Vec<Vec<String>>> = Arc::new(filters.iter().map(|f| run(f, Val::Null)).collect());
    // the shared value: built once; alone, each program gets the only handle to a value of its own
    let mk = compile(SHARED_VALUE);
    let fresh = || mk.id.run((Ctx::<JustLut<Val>>::new(&mk.lut, Vars::new([])), Val::Null)).next().unwrap().ok().unwrap();
    let sfilters: Arc<Vec<F>> = Arc::new(SHARED_PROGRAMS.iter().map(|p| compile(&format!("def empty: [] | .[]; {p}"))).collect());
    let salone: Arc<Vec<Vec<String>>> = Arc::new(sfilters.iter().map(|f| run(f, fresh())).collect());
    let shared = fresh();
    let original = format!("{shared}");
    let handles: Vec<_> = (0..threads)
        .map(|t| {
            let (filters, alone) = (filters.clone(), alone.clone());
            let (sfilters, salone, mine) = (sfilters.clone(), salone.clone(), shared.clone());
            std::thread::spawn(move || {
                for r in 0..reps {
                    for k in 0..sfilters.len() {
                        let i = (k + t + r) % sfilters.len();
                        let got = run(&sfilters[i], mine.clone());
                        if got != salone[i] {
                            println!("MISMATCH program={:?} on a value shared between threads: concurrent={:?} alone={:?}", SHARED_PROGRAMS[i], got, salone[i]);
                            std::process::exit(1);
                        }
                    }
                }
                drop(mine);
                for r in 0..reps {
                    for k in 0..filters.len() {
                        // each thread walks the programs in its own order
                        let i = (k * (t + 1) + r + t) % filters.len();
                        let got = run(&filters[i], Val::Null);
                        if got != alone[i] {
                            println!("MISMATCH program={:?} concurrent={:?} alone={:?}", PROGRAMS[i], got, alone[i]);
                            std::process::exit(1);
                        }
                    }
                }
            })
        })
        .collect();
    for h in handles {
        if h.join().is_err() {
            println!("MISMATCH a thread panicked");
            std::process::exit(1);
        }
    }
    if format!("{shared}") != original {
        println!("MISMATCH the shared value changed: {shared} (was {original})");
        std::process::exit(1);
    }
    println!("simmiri: {threads} threads x {reps} repetitions x {count} programs: all streams equal the sequential ones");
}
