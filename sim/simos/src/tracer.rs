//! The simulated operating system around the real `jaq` binary: a ptrace-based tracer that
//! logs every system call, attributes it to an object, and applies the world's fault plan.
use crate::sys::{self, Shape, CLONE_THREAD};
use crate::world::*;
use serde::{Deserialize, Serialize};
use std::collections::{BTreeMap, HashMap};
use std::ffi::CString;
use std::os::unix::ffi::OsStrExt;
use std::os::unix::fs::PermissionsExt;
use std::os::unix::process::CommandExt;
use std::path::{Path, PathBuf};
use std::sync::atomic::{AtomicBool, AtomicU64, Ordering};
use std::sync::{Arc, Mutex, OnceLock};
use std::time::{Duration, Instant};

#[derive(Clone, Debug, Serialize, Deserialize, PartialEq, Eq)]
pub struct Op {
    /// sequence number among counted operations (fault and kill points)
    pub seq: Option<u32>,
    pub name: String,
    pub class: Class,
    /// normalised: `/@ROOT/..` inside the sandbox, absolute otherwise
    pub path: Option<String>,
    pub path2: Option<String>,
    pub fd: Option<i32>,
    /// object an fd refers to: `stdin`/`stdout`/`stderr` or the path it was opened on
    pub obj: Option<String>,
    pub flags: u64,
    pub count: u64,
    pub ret: i64,
    pub injected: Option<String>,
}

impl Op {
    /// stable description used to pin faults in replay files
    pub fn sig(&self) -> String {
        let o = self
            .path
            .as_deref()
            .or(self.obj.as_deref())
            .unwrap_or("-");
        format!("{} {}", self.name, norm_tmp(o))
    }
    pub fn object(&self) -> Option<&str> {
        self.path.as_deref().or(self.obj.as_deref())
    }
    pub fn in_sandbox(&self) -> bool {
        let p = |s: &Option<String>| s.as_deref().is_some_and(|s| s.starts_with(ROOT_TOKEN));
        p(&self.path) || p(&self.path2) || p(&self.obj)
    }
    pub fn is_std(&self) -> bool {
        matches!(self.obj.as_deref(), Some("stdin" | "stdout" | "stderr"))
    }
    pub fn writes_flags(&self) -> bool {
        let acc = self.flags & (libc::O_ACCMODE as u64);
        acc == libc::O_WRONLY as u64
            || acc == libc::O_RDWR as u64
            || self.flags & (libc::O_CREAT | libc::O_TRUNC | libc::O_APPEND) as u64 != 0
    }
}

/// Replace the random part of `tempfile` names (`jaq` + 6 alphanumerics) by `jaq??????`.
pub fn norm_tmp(path: &str) -> String {
    path.split('/')
        .map(|c| if is_tmp_name(c) { "jaq??????" } else { c })
        .collect::<Vec<_>>()
        .join("/")
}

/// Like `norm_tmp`, for free text (diagnostics quoting a path).
pub fn norm_tmp_text(s: &str) -> String {
    let b = s.as_bytes();
    let mut out = String::with_capacity(s.len());
    let mut i = 0;
    while i < b.len() {
        if b[i..].starts_with(b"/jaq")
            && b.len() >= i + 10
            && b[i + 4..i + 10].iter().all(|c| c.is_ascii_alphanumeric())
            && b.get(i + 10).map_or(true, |c| !c.is_ascii_alphanumeric())
        {
            out.push_str("/jaq??????");
            i += 10;
        } else {
            let ch = s[i..].chars().next().unwrap();
            out.push(ch);
            i += ch.len_utf8();
        }
    }
    out
}

/// The panic message of the Rust runtime names the thread by its kernel id
/// (`thread 'main' (12345) panicked`): a number the simulation does not decide.
pub fn norm_thread_ids(s: &str) -> String {
    let mut out = String::with_capacity(s.len());
    let mut rest = s;
    while let Some(k) = rest.find("' (") {
        let (head, tail) = rest.split_at(k + 3);
        out.push_str(head);
        let digits = tail.bytes().take_while(|b| b.is_ascii_digit()).count();
        if digits > 0 && tail[digits..].starts_with(") ") && head.contains("thread '") {
            out.push_str("TID");
        } else {
            out.push_str(&tail[..digits]);
        }
        rest = &tail[digits..];
    }
    out.push_str(rest);
    out
}

pub fn is_tmp_name(c: &str) -> bool {
    c.len() == 9 && c.starts_with("jaq") && c[3..].bytes().all(|b| b.is_ascii_alphanumeric())
}

#[derive(Clone, Debug, Serialize, Deserialize, PartialEq, Eq)]
pub enum Exit {
    Exited(i32),
    Signaled(i32),
    /// killed by the fault plan at this counted op
    Killed(u32),
    /// a read on stdin would block for ever
    Stalled,
    /// no system call for the watchdog period
    Hung,
}

#[derive(Clone, Debug, Serialize, Deserialize, PartialEq, Eq, Hash, PartialOrd, Ord)]
pub struct FileState {
    pub kind: Kind,
    pub bytes: Blob,
    pub mode: u32,
}

#[derive(Clone, Debug, Serialize, Deserialize)]
pub struct History {
    pub ops: Vec<Op>,
    pub exit: Exit,
    pub stdout: Blob,
    pub stderr: Blob,
    pub files_after: BTreeMap<String, FileState>,
    /// stdout bytes present when the run stalled/was killed are simply `stdout`
    pub counted: u32,
    /// faults of the plan that actually fired, as "seq kind sig"
    pub fired: Vec<String>,
    /// faults of the plan that never matched an op
    pub unfired: usize,
    /// a `Seq` fault whose recorded signature did not match the op it landed on
    pub diverged: bool,
}

impl History {
    pub fn counted_ops(&self) -> impl Iterator<Item = &Op> {
        self.ops.iter().filter(|o| o.seq.is_some())
    }
    /// A hash of everything observable (used by the determinism self-test).
    pub fn digest(&self) -> u64 {
        let mut h = Fnv::new();
        for o in &self.ops {
            if o.seq.is_none() && o.class == Class::Uncounted {
                continue;
            }
            h.write(o.sig().as_bytes());
            // (how many bytes one write of a diagnostic carried depends on the width of the thread
            // id in it: the text itself is hashed below, normalised)
            let ret = if o.class == Class::Write && o.obj.as_deref() == Some("stderr") { o.ret.signum() } else { o.ret.min(1 << 40) };
            h.write(&ret.to_le_bytes());
            h.write(o.injected.as_deref().unwrap_or("").as_bytes());
        }
        h.write(format!("{:?}", self.exit).as_bytes());
        h.write(&self.stdout.0);
        h.write(norm_thread_ids(&norm_tmp_text(&String::from_utf8_lossy(&self.stderr.0))).as_bytes());
        for (p, f) in &self.files_after {
            h.write(norm_tmp(p).as_bytes());
            h.write(&f.bytes.0);
            h.write(&f.mode.to_le_bytes());
        }
        h.finish()
    }
}

pub struct Fnv(u64);
impl Fnv {
    pub fn new() -> Self {
        Fnv(0xcbf29ce484222325)
    }
    pub fn write(&mut self, b: &[u8]) {
        for &x in b {
            self.0 ^= x as u64;
            self.0 = self.0.wrapping_mul(0x100000001b3);
        }
        self.0 ^= 0xff;
        self.0 = self.0.wrapping_mul(0x100000001b3);
    }
    pub fn finish(&self) -> u64 {
        self.0
    }
}
impl Default for Fnv {
    fn default() -> Self {
        Self::new()
    }
}

// ---------------------------------------------------------------------------------------
// watchdog

struct Watched {
    pid: i32,
    tick: Arc<AtomicU64>,
    fired: Arc<AtomicBool>,
}

static WATCH: OnceLock<Mutex<Vec<Watched>>> = OnceLock::new();
static EPOCH: OnceLock<Instant> = OnceLock::new();
pub static WATCHDOG_MS: AtomicU64 = AtomicU64::new(20_000);

fn now_ms() -> u64 {
    EPOCH.get_or_init(Instant::now).elapsed().as_millis() as u64
}

fn watch() -> &'static Mutex<Vec<Watched>> {
    WATCH.get_or_init(|| {
        std::thread::Builder::new()
            .name("simos-watchdog".into())
            .spawn(|| loop {
                std::thread::sleep(Duration::from_millis(250));
                let now = now_ms();
                let limit = WATCHDOG_MS.load(Ordering::Relaxed);
                if let Some(w) = WATCH.get() {
                    for e in w.lock().unwrap().iter() {
                        if now.saturating_sub(e.tick.load(Ordering::Relaxed)) > limit
                            && !e.fired.swap(true, Ordering::SeqCst)
                        {
                            unsafe { libc::kill(e.pid, libc::SIGKILL) };
                        }
                    }
                }
            })
            .expect("watchdog thread");
        Mutex::new(Vec::new())
    })
}

// ---------------------------------------------------------------------------------------
// sandbox

/// A private directory tree for one worker; worlds are materialised into it one at a time.
pub struct Sandbox {
    base: PathBuf,
    pub root: PathBuf,
    io: PathBuf,
    exe_src: PathBuf,
}

pub const EXE_REL: &str = "opt/bin/jaq";

impl Sandbox {
    /// `exe`: the jaq binary built from the working tree.
    pub fn new(base: &Path, exe: &Path) -> std::io::Result<Self> {
        let _ = std::fs::remove_dir_all(base);
        std::fs::create_dir_all(base)?;
        let base = base.canonicalize()?;
        let io = base.join("io");
        std::fs::create_dir_all(&io)?;
        // keep a copy/link of the binary on the sandbox's file system so that per-run hard links work
        let exe_src = base.join("exe");
        if std::fs::hard_link(exe, &exe_src).is_err() {
            std::fs::copy(exe, &exe_src)?;
        }
        Ok(Self {
            root: base.join("root"),
            base,
            io,
            exe_src,
        })
    }

    pub fn root_str(&self) -> String {
        self.root.to_string_lossy().into_owned()
    }

    fn clean(&self) -> std::io::Result<()> {
        if self.root.exists() {
            // make everything removable again (worlds may contain read-only directories)
            let _ = chmod_tree(&self.root);
            std::fs::remove_dir_all(&self.root)?;
        }
        Ok(())
    }

    fn materialise(&self, w: &World) -> std::io::Result<()> {
        self.clean()?;
        let root = self.root_str();
        let exe = self.root.join(EXE_REL);
        std::fs::create_dir_all(exe.parent().unwrap())?;
        std::fs::hard_link(&self.exe_src, &exe)?;
        std::fs::create_dir_all(self.root.join(&w.cwd))?;
        let mut dir_modes = Vec::new();
        let mut links = Vec::new();
        for f in &w.files {
            let p = self.root.join(&f.path);
            if let Some(parent) = p.parent() {
                std::fs::create_dir_all(parent)?;
            }
            match &f.kind {
                Kind::File => {
                    // `/@ROOT` inside file contents (program files naming absolute paths) is
                    // replaced like in argv; `snapshot` reverses it
                    if contains(&f.bytes.0, ROOT_TOKEN.as_bytes()) {
                        std::fs::write(&p, replace_bytes(&f.bytes.0, ROOT_TOKEN.as_bytes(), root.as_bytes()))?;
                    } else {
                        std::fs::write(&p, &f.bytes.0)?;
                    }
                    std::fs::set_permissions(&p, std::fs::Permissions::from_mode(f.mode))?;
                }
                Kind::Dir => {
                    std::fs::create_dir_all(&p)?;
                    dir_modes.push((p, f.mode));
                }
                Kind::Symlink(t) => {
                    std::os::unix::fs::symlink(World::subst(t, &root), &p)?;
                }
                Kind::Hardlink(t) => links.push((self.root.join(t), p)),
                Kind::Fifo => {
                    let c = CString::new(p.as_os_str().as_encoded_bytes()).map_err(|_| std::io::Error::other("nul in path"))?;
                    if unsafe { libc::mkfifo(c.as_ptr(), f.mode as libc::mode_t) } != 0 {
                        return Err(std::io::Error::last_os_error());
                    }
                    std::fs::set_permissions(&p, std::fs::Permissions::from_mode(f.mode))?;
                }
            }
        }
        for (target, p) in links {
            std::fs::hard_link(target, p)?;
        }
        for (p, m) in dir_modes {
            std::fs::set_permissions(&p, std::fs::Permissions::from_mode(m))?;
        }
        std::fs::write(self.io.join("stdin"), &w.stdin.bytes.0)?;
        Ok(())
    }

    fn snapshot(&self) -> BTreeMap<String, FileState> {
        let mut out = BTreeMap::new();
        walk(&self.root, &self.root, &self.root_str(), &mut out);
        out.remove(EXE_REL);
        out
    }
}

impl Drop for Sandbox {
    fn drop(&mut self) {
        let _ = chmod_tree(&self.base);
        let _ = std::fs::remove_dir_all(&self.base);
    }
}

fn contains(h: &[u8], n: &[u8]) -> bool {
    h.windows(n.len()).any(|w| w == n)
}

fn replace_bytes(h: &[u8], from: &[u8], to: &[u8]) -> Vec<u8> {
    let mut out = Vec::with_capacity(h.len());
    let mut i = 0;
    while i < h.len() {
        if h[i..].starts_with(from) {
            out.extend_from_slice(to);
            i += from.len();
        } else {
            out.push(h[i]);
            i += 1;
        }
    }
    out
}

fn chmod_tree(p: &Path) -> std::io::Result<()> {
    let md = std::fs::symlink_metadata(p)?;
    if md.is_dir() {
        let _ = std::fs::set_permissions(p, std::fs::Permissions::from_mode(0o755));
        for e in std::fs::read_dir(p)? {
            let _ = chmod_tree(&e?.path());
        }
    }
    Ok(())
}

fn walk(root: &Path, dir: &Path, root_s: &str, out: &mut BTreeMap<String, FileState>) {
    let Ok(rd) = std::fs::read_dir(dir) else {
        return;
    };
    for e in rd.flatten() {
        let p = e.path();
        let rel = p.strip_prefix(root).unwrap().to_string_lossy().into_owned();
        if rel == EXE_REL {
            continue;
        }
        let Ok(md) = std::fs::symlink_metadata(&p) else {
            continue;
        };
        let mode = md.permissions().mode() & 0o7777;
        if md.file_type().is_symlink() {
            let t = std::fs::read_link(&p).unwrap_or_default();
            let t = World::unsubst(&t.to_string_lossy(), root_s);
            out.insert(
                rel,
                FileState {
                    kind: Kind::Symlink(t),
                    bytes: Blob::default(),
                    mode: 0o777,
                },
            );
        } else if md.is_dir() {
            out.insert(
                rel,
                FileState {
                    kind: Kind::Dir,
                    bytes: Blob::default(),
                    mode,
                },
            );
            walk(root, &p, root_s, out);
        } else if {
            use std::os::unix::fs::FileTypeExt;
            md.file_type().is_fifo()
        } {
            // never read: that would block, and what is left in a pipe is no file content
            out.insert(
                rel,
                FileState {
                    kind: Kind::Fifo,
                    bytes: Blob::default(),
                    mode,
                },
            );
        } else {
            let bytes = std::fs::read(&p).unwrap_or_default();
            // file contents may mention the sandbox root (e.g. `input_filename`): report them
            // with the root token so that they compare equal to what stdout reports
            let bytes = if contains(&bytes, root_s.as_bytes()) {
                replace_bytes(&bytes, root_s.as_bytes(), ROOT_TOKEN.as_bytes())
            } else {
                bytes
            };
            out.insert(
                rel,
                FileState {
                    kind: Kind::File,
                    bytes: Blob(bytes),
                    mode,
                },
            );
        }
    }
}

// ---------------------------------------------------------------------------------------
// tracee memory and registers

type Regs = libc::user_regs_struct;

fn getregs(pid: i32) -> Option<Regs> {
    let mut regs = std::mem::MaybeUninit::<Regs>::uninit();
    let r = unsafe { libc::ptrace(libc::PTRACE_GETREGS, pid, 0, regs.as_mut_ptr()) };
    (r == 0).then(|| unsafe { regs.assume_init() })
}

fn setregs(pid: i32, regs: &Regs) -> bool {
    unsafe { libc::ptrace(libc::PTRACE_SETREGS, pid, 0, regs as *const Regs) == 0 }
}

fn read_mem(pid: i32, addr: u64, len: usize) -> Option<Vec<u8>> {
    let mut buf = vec![0u8; len];
    let local = libc::iovec {
        iov_base: buf.as_mut_ptr() as *mut _,
        iov_len: len,
    };
    let remote = libc::iovec {
        iov_base: addr as *mut _,
        iov_len: len,
    };
    let n = unsafe { libc::process_vm_readv(pid, &local, 1, &remote, 1, 0) };
    if n < 0 {
        return None;
    }
    buf.truncate(n as usize);
    Some(buf)
}

fn write_mem(pid: i32, addr: u64, data: &[u8]) -> bool {
    let local = libc::iovec {
        iov_base: data.as_ptr() as *mut _,
        iov_len: data.len(),
    };
    let remote = libc::iovec {
        iov_base: addr as *mut _,
        iov_len: data.len(),
    };
    let n = unsafe { libc::process_vm_writev(pid, &local, 1, &remote, 1, 0) };
    n == data.len() as isize
}

fn read_cstr(pid: i32, addr: u64) -> Option<String> {
    if addr == 0 {
        return None;
    }
    let mut out = Vec::new();
    let mut a = addr;
    while out.len() < 8192 {
        // never cross a page boundary in one read
        let to_page = 4096 - (a % 4096) as usize;
        let chunk = read_mem(pid, a, to_page)?;
        if chunk.is_empty() {
            return None;
        }
        if let Some(i) = chunk.iter().position(|&b| b == 0) {
            out.extend_from_slice(&chunk[..i]);
            return Some(String::from_utf8_lossy(&out).into_owned());
        }
        a += chunk.len() as u64;
        out.extend_from_slice(&chunk);
    }
    None
}

/// Lexical normalisation (no symlink resolution): removes `.`, resolves `..`.
pub fn lex_norm(p: &str) -> String {
    let mut parts: Vec<&str> = Vec::new();
    for c in p.split('/') {
        match c {
            "" | "." => {}
            ".." => {
                parts.pop();
            }
            c => parts.push(c),
        }
    }
    format!("/{}", parts.join("/"))
}

// ---------------------------------------------------------------------------------------
// the run

struct Task {
    in_syscall: bool,
    /// value to force into rax at syscall exit
    force_ret: Option<i64>,
    /// op under construction (index into ops)
    cur: Option<usize>,
    kill_after: bool,
    random_buf: Option<(u64, u64)>,
    /// (real path, alias) of an exclusive creation in flight
    creating: Option<(String, String)>,
}

struct Run<'a> {
    w: &'a World,
    root: String,
    cwd: String,
    fds: HashMap<i32, String>,
    ops: Vec<Op>,
    next_seq: u32,
    nth: HashMap<(Class, String), u32>,
    fault_fired: Vec<bool>,
    fired: Vec<String>,
    diverged: bool,
    stdin_step: usize,
    stdin_delivered: u64,
    entropy: u64,
    /// files the tracee created exclusively (temporary files): real path -> stable alias
    tmp_alias: HashMap<String, String>,
    /// write ends of the world's named pipes (by token path), held until the tracee first reads
    fifo_writers: HashMap<String, std::fs::File>,
}

enum Decision {
    Proceed,
    Skip(i64),
    Shrink(u64),
    KillBefore,
    KillAfter,
    Torn(u64),
    Stall,
}

impl<'a> Run<'a> {
    fn norm(&self, p: &str) -> String {
        let abs = if p.starts_with('/') {
            p.to_string()
        } else {
            format!("{}/{}", self.cwd, p)
        };
        let n = lex_norm(&abs);
        if n == self.root || n.starts_with(&format!("{}/", self.root)) {
            format!("{}{}", ROOT_TOKEN, &n[self.root.len()..])
        } else if n != "/" && self.root.starts_with(&format!("{n}/")) {
            // an ancestor of the sandbox (its name holds the harness' pid and worker number)
            format!("{}^{}", ROOT_TOKEN, self.root[n.len()..].matches('/').count())
        } else {
            n
        }
    }

    fn at_path(&self, dirfd: i32, p: &str) -> String {
        if p.starts_with('/') || dirfd == libc::AT_FDCWD {
            self.norm(p)
        } else {
            match self.fds.get(&dirfd) {
                Some(d) if d.starts_with(ROOT_TOKEN) => {
                    let d = format!("{}{}", self.root, &d[ROOT_TOKEN.len()..]);
                    self.norm(&format!("{d}/{p}"))
                }
                Some(d) => self.norm(&format!("{d}/{p}")),
                None => self.norm(p),
            }
        }
    }

    fn fd_obj(&self, fd: i32) -> Option<String> {
        self.fds.get(&fd).cloned()
    }

    fn obj_matches(&self, sel: &Obj, op: &Op) -> bool {
        let o = op.object();
        match sel {
            Obj::Any => true,
            Obj::Stdin => o == Some("stdin"),
            Obj::Stdout => o == Some("stdout"),
            Obj::Stderr => o == Some("stderr"),
            Obj::AnyFile => op.in_sandbox() && !op.is_std(),
            Obj::Prefix(p) => {
                let want = if p.starts_with('/') {
                    p.clone()
                } else {
                    format!("{ROOT_TOKEN}/{p}")
                };
                o.is_some_and(|o| o.starts_with(&want))
            }
            Obj::Path(p) => {
                let want = if p.starts_with('/') {
                    p.clone()
                } else {
                    format!("{ROOT_TOKEN}/{p}")
                };
                o.map(norm_tmp).as_deref() == Some(&norm_tmp(&want))
                    || op.path2.as_deref().map(norm_tmp).as_deref() == Some(&norm_tmp(&want))
            }
        }
    }

    /// Decide what happens to the operation being entered.
    fn decide(&mut self, op: &Op) -> (Decision, Option<String>) {
        // per-(class, object) counters for Nth addressing
        let key_obj = op.object().map(norm_tmp).unwrap_or_default();
        let n_here = {
            let c = self.nth.entry((op.class, key_obj)).or_insert(0);
            let v = *c;
            *c += 1;
            v
        };
        let n_any = {
            let c = self.nth.entry((op.class, "*".into())).or_insert(0);
            let v = *c;
            *c += 1;
            v
        };
        let n_anyfile = if op.in_sandbox() && !op.is_std() {
            let c = self.nth.entry((op.class, "*file".into())).or_insert(0);
            let v = *c;
            *c += 1;
            Some(v)
        } else {
            None
        };
        for (i, f) in self.w.faults.iter().enumerate() {
            let hit = match &f.at {
                At::Seq(s) => op.seq == Some(*s),
                At::Nth {
                    class,
                    obj,
                    n,
                    sticky,
                } => {
                    *class == op.class && self.obj_matches(obj, op) && {
                        let k = match obj {
                            Obj::Any | Obj::Prefix(_) => n_any,
                            Obj::AnyFile => n_anyfile.unwrap_or(u32::MAX),
                            _ => n_here,
                        };
                        k == *n || (*sticky && k > *n && k != u32::MAX)
                    }
                }
            };
            if !hit {
                continue;
            }
            if let (At::Seq(_), Some(sig)) = (&f.at, &f.sig) {
                if *sig != op.sig() {
                    self.diverged = true;
                }
            }
            self.fault_fired[i] = true;
            let count = op.count;
            let d = match &f.kind {
                FaultKind::Fail(e) => Decision::Skip(-(*e as i64)),
                FaultKind::Eintr => Decision::Skip(-(libc::EINTR as i64)),
                FaultKind::Short(n) => {
                    if matches!(op.class, Class::Read | Class::Write) && count > 1 {
                        Decision::Shrink((*n as u64).clamp(1, count - 1))
                    } else {
                        Decision::Proceed
                    }
                }
                FaultKind::KillBefore => Decision::KillBefore,
                FaultKind::KillAfter => Decision::KillAfter,
                FaultKind::Torn(n) => {
                    if op.class == Class::Write && count > 1 {
                        Decision::Torn((*n as u64).clamp(1, count - 1))
                    } else {
                        Decision::KillBefore
                    }
                }
            };
            let label = match &f.kind {
                FaultKind::Fail(e) => format!("FAIL({})", sys::errno_name(*e)),
                FaultKind::Eintr => "EINTR".into(),
                FaultKind::Short(_) => "SHORT".into(),
                FaultKind::KillBefore => "KILL_BEFORE".into(),
                FaultKind::KillAfter => "KILL_AFTER".into(),
                FaultKind::Torn(_) => "TORN".into(),
            };
            if matches!(d, Decision::Proceed) {
                return (d, None);
            }
            self.fired.push(format!(
                "{} {} {}",
                op.seq.map_or("-".into(), |s| s.to_string()),
                label,
                op.sig()
            ));
            return (d, Some(label));
        }
        // mount boundary
        if self.w.mount_boundary && op.class == Class::Rename {
            if let (Some(a), Some(b)) = (&op.path, &op.path2) {
                let dir = |p: &str| p.rsplit_once('/').map(|x| x.0.to_string());
                if dir(a) != dir(b) {
                    self.fired
                        .push(format!("{} MOUNT_EXDEV {}", op.seq.unwrap_or(0), op.sig()));
                    return (
                        Decision::Skip(-(libc::EXDEV as i64)),
                        Some("MOUNT_EXDEV".into()),
                    );
                }
            }
        }
        // stdin script
        if op.class == Class::Read && op.obj.as_deref() == Some("stdin") {
            let total = self.w.stdin.bytes.0.len() as u64;
            if self.stdin_delivered >= total {
                return match self.w.stdin.end {
                    StdinEnd::Eof => (Decision::Proceed, None),
                    StdinEnd::Stall => (Decision::Stall, Some("STALL".into())),
                    StdinEnd::Fail(e) => {
                        self.fired.push(format!(
                            "{} STDIN_FAIL({}) {}",
                            op.seq.unwrap_or(0),
                            sys::errno_name(e),
                            op.sig()
                        ));
                        (
                            Decision::Skip(-(e as i64)),
                            Some(format!("FAIL({})", sys::errno_name(e))),
                        )
                    }
                };
            }
            let script = &self.w.stdin.script;
            if !script.is_empty() {
                let idx = if self.w.stdin.cycle {
                    Some(self.stdin_step % script.len())
                } else if self.stdin_step < script.len() {
                    Some(self.stdin_step)
                } else {
                    None
                };
                if let Some(i) = idx {
                    self.stdin_step += 1;
                    match script[i] {
                        StdinStep::Chunk(n) => {
                            let n = (n as u64).max(1);
                            if n < op.count {
                                return (Decision::Shrink(n), Some("CHUNK".into()));
                            }
                        }
                        StdinStep::Eintr => {
                            return (
                                Decision::Skip(-(libc::EINTR as i64)),
                                Some("STDIN_EINTR".into()),
                            )
                        }
                    }
                }
            }
        }
        (Decision::Proceed, None)
    }

    fn rand_bytes(&mut self, n: usize) -> Vec<u8> {
        let mut out = Vec::with_capacity(n);
        while out.len() < n {
            self.entropy = self.entropy.wrapping_add(0x9E3779B97F4A7C15);
            let mut z = self.entropy;
            z = (z ^ (z >> 30)).wrapping_mul(0xBF58476D1CE4E5B9);
            z = (z ^ (z >> 27)).wrapping_mul(0x94D049BB133111EB);
            z ^= z >> 31;
            out.extend_from_slice(&z.to_le_bytes());
        }
        out.truncate(n);
        out
    }
}

#[derive(Debug)]
pub struct TraceError(pub String);

impl std::fmt::Display for TraceError {
    fn fmt(&self, f: &mut std::fmt::Formatter) -> std::fmt::Result {
        write!(f, "tracer error: {}", self.0)
    }
}

/// Run the world. Must be called from the thread that will also trace the child.
pub fn run(sb: &Sandbox, w: &World) -> Result<History, TraceError> {
    let te = |s: String| TraceError(s);
    let t_start = Instant::now();
    let prof = std::env::var_os("SIMOS_PROF").is_some();
    sb.materialise(w)
        .map_err(|e| te(format!("materialise: {e}")))?;
    let root = sb.root_str();
    let exe = sb.root.join(EXE_REL);
    let cwd_abs = lex_norm(&format!("{}/{}", root, w.cwd));

    let open = |name: &str, write: bool| -> std::io::Result<std::fs::File> {
        let p = sb.io.join(name);
        if write {
            std::fs::File::create(p)
        } else {
            std::fs::File::open(p)
        }
    };
    let fin = open("stdin", false).map_err(|e| te(format!("stdin: {e}")))?;
    let fout = open("stdout", true).map_err(|e| te(format!("stdout: {e}")))?;
    let ferr = open("stderr", true).map_err(|e| te(format!("stderr: {e}")))?;
    // a terminal as standard output: a pseudo-terminal in raw mode whose master side is drained
    // by a thread of the simulator
    let mut pty_reader: Option<std::thread::JoinHandle<Vec<u8>>> = None;
    let mut pty_slave: Option<std::fs::File> = None;
    if w.stdout_tty {
        use std::os::fd::FromRawFd;
        // both sides are opened close-on-exec from the start: neither may leak into a child that
        // another worker thread forks meanwhile (an inherited descriptor would shift that
        // child's descriptor numbers and with them its history)
        let (master, slave) = unsafe {
            let master = libc::posix_openpt(libc::O_RDWR | libc::O_NOCTTY | libc::O_CLOEXEC);
            if master < 0 || libc::grantpt(master) != 0 || libc::unlockpt(master) != 0 {
                return Err(te(format!("posix_openpt: {}", std::io::Error::last_os_error())));
            }
            let mut name = [0 as libc::c_char; 128];
            if libc::ptsname_r(master, name.as_mut_ptr(), name.len()) != 0 {
                return Err(te(format!("ptsname_r: {}", std::io::Error::last_os_error())));
            }
            let slave = libc::open(name.as_ptr(), libc::O_RDWR | libc::O_NOCTTY | libc::O_CLOEXEC);
            if slave < 0 {
                return Err(te(format!("open pty slave: {}", std::io::Error::last_os_error())));
            }
            let mut t: libc::termios = std::mem::zeroed();
            libc::tcgetattr(slave, &mut t);
            libc::cfmakeraw(&mut t);
            libc::tcsetattr(slave, libc::TCSANOW, &t);
            (master, slave)
        };
        pty_slave = Some(unsafe { std::fs::File::from_raw_fd(slave) });
        let mut m = unsafe { std::fs::File::from_raw_fd(master) };
        pty_reader = Some(std::thread::spawn(move || {
            use std::io::Read;
            let mut out = Vec::new();
            let mut buf = [0u8; 4096];
            loop {
                match m.read(&mut buf) {
                    Ok(0) | Err(_) => break,
                    Ok(n) => out.extend_from_slice(&buf[..n]),
                }
            }
            out
        }));
    }

    let mut cmd = std::process::Command::new(&exe);
    cmd.args(w.argv.iter().map(|a| World::subst(a, &root)));
    cmd.env_clear();
    for (k, v) in &w.env {
        cmd.env(k, World::subst(v, &root));
    }
    cmd.current_dir(&cwd_abs);
    match pty_slave.take() {
        Some(slave) => {
            drop(fout);
            cmd.stdin(fin).stdout(slave).stderr(ferr);
        }
        None => {
            cmd.stdin(fin).stdout(fout).stderr(ferr);
        }
    }
    let umask = w.umask.unwrap_or(0o022);
    unsafe {
        cmd.pre_exec(move || {
            // no ASLR, bounded address space, and be traced by the parent *thread*
            libc::personality(0x0040000);
            libc::umask(umask as libc::mode_t);
            let lim = libc::rlimit {
                rlim_cur: 6 << 30,
                rlim_max: 6 << 30,
            };
            libc::setrlimit(libc::RLIMIT_AS, &lim);
            let core = libc::rlimit {
                rlim_cur: 0,
                rlim_max: 0,
            };
            libc::setrlimit(libc::RLIMIT_CORE, &core);
            if libc::ptrace(libc::PTRACE_TRACEME, 0, 0, 0) != 0 {
                return Err(std::io::Error::last_os_error());
            }
            Ok(())
        });
    }
    let t_mat = t_start.elapsed();
    let child = cmd.spawn().map_err(|e| te(format!("spawn: {e}")))?;
    // our copies of the child's standard streams (the terminal's slave side among them) go now
    drop(cmd);
    let t_spawn = t_start.elapsed();
    let pid = child.id() as i32;
    // we reap the child ourselves
    std::mem::forget(child);

    let tick = Arc::new(AtomicU64::new(now_ms()));
    let hung = Arc::new(AtomicBool::new(false));
    watch().lock().unwrap().push(Watched {
        pid,
        tick: tick.clone(),
        fired: hung.clone(),
    });
    struct Unwatch(i32);
    impl Drop for Unwatch {
        fn drop(&mut self) {
            if let Some(w) = WATCH.get() {
                w.lock().unwrap().retain(|e| e.pid != self.0);
            }
            // make sure nothing survives us
            unsafe {
                libc::kill(self.0, libc::SIGKILL);
                let mut st = 0;
                libc::waitpid(self.0, &mut st, libc::__WALL | libc::WNOHANG);
            }
        }
    }
    let _unwatch = Unwatch(pid);

    // wait for the exec stop
    let mut status = 0i32;
    let r = unsafe { libc::waitpid(pid, &mut status, libc::__WALL) };
    if r != pid || !libc::WIFSTOPPED(status) {
        return Err(te(format!("no exec stop (status {status:#x})")));
    }
    let opts = libc::PTRACE_O_TRACESYSGOOD
        | libc::PTRACE_O_EXITKILL
        | libc::PTRACE_O_TRACECLONE
        | libc::PTRACE_O_TRACEFORK
        | libc::PTRACE_O_TRACEVFORK;
    if unsafe { libc::ptrace(libc::PTRACE_SETOPTIONS, pid, 0, opts as libc::c_long) } != 0 {
        return Err(te("PTRACE_SETOPTIONS failed".into()));
    }

    let mut run = Run {
        w,
        root: root.clone(),
        cwd: cwd_abs.clone(),
        fds: HashMap::from([
            (0, "stdin".to_string()),
            (1, "stdout".to_string()),
            (2, "stderr".to_string()),
        ]),
        ops: Vec::new(),
        next_seq: 0,
        nth: HashMap::new(),
        fault_fired: vec![false; w.faults.len()],
        fired: Vec::new(),
        diverged: false,
        stdin_step: 0,
        stdin_delivered: 0,
        entropy: w.entropy ^ 0x5DEECE66D,
        tmp_alias: HashMap::new(),
        fifo_writers: HashMap::new(),
    };
    for f in w.files.iter().filter(|f| f.kind == Kind::Fifo) {
        use std::io::Write;
        use std::os::unix::fs::OpenOptionsExt;
        // read-write so that neither this open nor the tracee's blocks; close-on-exec (std's default)
        let mut wr = std::fs::OpenOptions::new()
            .read(true)
            .write(true)
            .custom_flags(libc::O_NONBLOCK)
            .open(sb.root.join(&f.path))
            .map_err(|e| te(format!("fifo {}: {e}", f.path)))?;
        let bytes = if contains(&f.bytes.0, ROOT_TOKEN.as_bytes()) {
            replace_bytes(&f.bytes.0, ROOT_TOKEN.as_bytes(), root.as_bytes())
        } else {
            f.bytes.0.clone()
        };
        // everything must fit into the pipe: there is no producer process to write the rest later
        wr.write_all(&bytes).map_err(|e| te(format!("fifo {} ({} bytes): {e}", f.path, bytes.len())))?;
        run.fifo_writers.insert(format!("{ROOT_TOKEN}/{}", f.path), wr);
    }
    let mut tasks: HashMap<i32, Task> = HashMap::new();
    let new_task = || Task {
        in_syscall: false,
        force_ret: None,
        cur: None,
        kill_after: false,
        random_buf: None,
        creating: None,
    };
    tasks.insert(pid, new_task());

    let cont = |tid: i32, sig: i32| unsafe {
        libc::ptrace(libc::PTRACE_SYSCALL, tid, 0, sig as libc::c_long);
    };
    cont(pid, 0);

    let exit: Exit;
    let kill_all = |pid: i32| unsafe {
        libc::kill(pid, libc::SIGKILL);
    };
    let mut planned_exit: Option<Exit> = None;

    loop {
        let mut status = 0i32;
        let tid = unsafe { libc::waitpid(-1, &mut status, libc::__WALL | libc::__WNOTHREAD) };
        if tid < 0 {
            let e = std::io::Error::last_os_error();
            if e.raw_os_error() == Some(libc::EINTR) {
                continue;
            }
            return Err(te(format!("waitpid: {e}")));
        }
        tick.store(now_ms(), Ordering::Relaxed);
        if libc::WIFEXITED(status) || libc::WIFSIGNALED(status) {
            if tid == pid {
                exit = if let Some(e) = planned_exit.take() {
                    e
                } else if hung.load(Ordering::SeqCst) {
                    Exit::Hung
                } else if libc::WIFEXITED(status) {
                    Exit::Exited(libc::WEXITSTATUS(status))
                } else {
                    Exit::Signaled(libc::WTERMSIG(status))
                };
                break;
            }
            tasks.remove(&tid);
            continue;
        }
        if !libc::WIFSTOPPED(status) {
            continue;
        }
        let sig = libc::WSTOPSIG(status);
        let event = (status >> 16) & 0xff;
        let task = tasks.entry(tid).or_insert_with(new_task);
        if planned_exit.is_some() {
            // we are tearing the tracee down
            kill_all(pid);
            cont(tid, 0);
            continue;
        }
        if sig == (libc::SIGTRAP | 0x80) {
            // syscall stop
            let Some(mut regs) = getregs(tid) else {
                cont(tid, 0);
                continue;
            };
            if !task.in_syscall {
                task.in_syscall = true;
                let nr = regs.orig_rax as i64;
                let name = sys::name(nr);
                let a = [regs.rdi, regs.rsi, regs.rdx, regs.r10, regs.r8, regs.r9];
                let (mut class, shape) = sys::classify(name);
                // argument-dependent classes
                match name {
                    "clone" if a[0] & CLONE_THREAD == 0 => class = Class::Forbidden,
                    "kill" if a[0] as i32 != pid && a[0] as i32 != 0 => class = Class::Forbidden,
                    "tgkill" if a[0] as i32 != pid => class = Class::Forbidden,
                    _ => {}
                }
                if class == Class::Uncounted {
                    task.cur = None;
                    cont(tid, 0);
                    continue;
                }
                let mut op = Op {
                    seq: None,
                    name: name.to_string(),
                    class,
                    path: None,
                    path2: None,
                    fd: None,
                    obj: None,
                    flags: 0,
                    count: 0,
                    ret: 0,
                    injected: None,
                };
                let s = |addr: u64| read_cstr(tid, addr);
                match shape {
                    Shape::Path0 => op.path = s(a[0]).map(|p| run.norm(&p)),
                    Shape::At01 => {
                        let p = s(a[1]).unwrap_or_default();
                        if p.is_empty() {
                            // AT_EMPTY_PATH: an operation on the descriptor itself
                            op.fd = Some(a[0] as i32);
                            op.obj = run.fd_obj(a[0] as i32);
                        } else {
                            op.path = Some(run.at_path(a[0] as i32, &p));
                        }
                    }
                    Shape::Path01 => {
                        op.path = s(a[0]).map(|p| run.norm(&p));
                        op.path2 = s(a[1]).map(|p| run.norm(&p));
                    }
                    Shape::At0123 => {
                        op.path = s(a[1]).map(|p| run.at_path(a[0] as i32, &p));
                        op.path2 = s(a[3]).map(|p| run.at_path(a[2] as i32, &p));
                    }
                    Shape::Symlink => {
                        op.path2 = s(a[0]);
                        op.path = s(a[1]).map(|p| run.norm(&p));
                    }
                    Shape::SymlinkAt => {
                        op.path2 = s(a[0]);
                        op.path = s(a[2]).map(|p| run.at_path(a[1] as i32, &p));
                    }
                    Shape::Fd0 => {
                        op.fd = Some(a[0] as i32);
                        op.obj = run.fd_obj(a[0] as i32);
                    }
                    Shape::Mmap => {
                        let fd = a[4] as i32;
                        if fd < 0 {
                            task.cur = None;
                            cont(tid, 0);
                            continue;
                        }
                        op.fd = Some(fd);
                        op.obj = run.fd_obj(fd);
                        op.count = a[1];
                        op.flags = a[2];
                    }
                    Shape::Fd02 => {
                        let (fin, fout) = if name == "sendfile" {
                            (a[1] as i32, a[0] as i32)
                        } else {
                            (a[0] as i32, a[2] as i32)
                        };
                        op.fd = Some(fout);
                        op.obj = run.fd_obj(fout);
                        op.path2 = run.fd_obj(fin);
                    }
                    Shape::None => {}
                }
                match name {
                    "open" => op.flags = a[1],
                    "creat" => op.flags = (libc::O_CREAT | libc::O_WRONLY | libc::O_TRUNC) as u64,
                    "openat" => op.flags = a[2],
                    "openat2" => {
                        op.flags = read_mem(tid, a[2], 8)
                            .and_then(|b| b.try_into().ok())
                            .map(u64::from_le_bytes)
                            .unwrap_or(0)
                    }
                    "read" | "write" | "pread64" | "pwrite64" => op.count = a[2],
                    "chmod" => op.flags = a[1],
                    "fchmod" => op.flags = a[1],
                    "fchmodat" | "fchmodat2" => op.flags = a[2],
                    "renameat2" => op.flags = a[4],
                    "unlinkat" => op.flags = a[2],
                    "getrandom" => task.random_buf = Some((a[0], a[1])),
                    "execve" => op.path = s(a[0]).map(|p| run.norm(&p)),
                    "execveat" => op.path = s(a[1]).map(|p| run.at_path(a[0] as i32, &p)),
                    _ => {}
                }
                // a file the tracee created with O_CREAT|O_EXCL is known by a name-independent alias
                for p in [&mut op.path, &mut op.path2] {
                    if let Some(a) = p.as_ref().and_then(|x| run.tmp_alias.get(x)) {
                        *p = Some(a.clone());
                    }
                }
                // the exclusive creation itself is named by its alias already (its real name is random)
                let mut creating: Option<(String, String)> = None;
                if op.class == Class::Open {
                    let excl = (libc::O_CREAT | libc::O_EXCL) as u64;
                    if op.flags & excl == excl {
                        if let Some(p) = op.path.clone().filter(|p| p.starts_with(ROOT_TOKEN)) {
                            let dir = p.rsplit_once('/').map_or("", |x| x.0).to_string();
                            let alias = format!("{dir}/jaq??????");
                            op.path = Some(alias.clone());
                            creating = Some((p, alias));
                        }
                    }
                }
                task.creating = creating;
                if class == Class::Exe || op.path.as_deref() == Some("/proc/self/exe") {
                    op.class = Class::Exe;
                }
                let counted = !matches!(op.class, Class::Forbidden | Class::Random)
                    && (op.in_sandbox()
                        || op.is_std()
                        || matches!(op.class, Class::Cwd | Class::Exe));
                if counted {
                    op.seq = Some(run.next_seq);
                    run.next_seq += 1;
                }
                let (decision, label) = if op.class == Class::Forbidden {
                    (
                        Decision::Skip(-(libc::EPERM as i64)),
                        Some("DENIED".to_string()),
                    )
                } else if op.class == Class::Random {
                    (Decision::Proceed, None)
                } else {
                    run.decide(&op)
                };
                op.injected = label;
                let seq = op.seq;
                run.ops.push(op);
                task.cur = Some(run.ops.len() - 1);
                if run.ops.last().is_some_and(|o| o.class == Class::Read) {
                    // the producer of a named pipe hangs up as soon as the reader starts to read:
                    // what it wrote stays in the pipe, followed by the end of the stream
                    if let Some(o) = run.ops.last().and_then(|o| o.obj.clone()) {
                        run.fifo_writers.remove(&o);
                    }
                }
                match decision {
                    Decision::Proceed => {}
                    Decision::Skip(ret) => {
                        regs.orig_rax = u64::MAX;
                        setregs(tid, &regs);
                        task.force_ret = Some(ret);
                    }
                    Decision::Shrink(n) => {
                        regs.rdx = n;
                        setregs(tid, &regs);
                    }
                    Decision::Torn(n) => {
                        regs.rdx = n;
                        setregs(tid, &regs);
                        task.kill_after = true;
                    }
                    Decision::KillAfter => task.kill_after = true,
                    Decision::KillBefore => {
                        // the call must not happen: turn it into a no-op, then kill
                        regs.orig_rax = u64::MAX;
                        setregs(tid, &regs);
                        planned_exit = Some(Exit::Killed(seq.unwrap_or(0)));
                        if let Some(i) = task.cur {
                            run.ops[i].ret = -(libc::EINTR as i64);
                        }
                        kill_all(pid);
                    }
                    Decision::Stall => {
                        regs.orig_rax = u64::MAX;
                        setregs(tid, &regs);
                        planned_exit = Some(Exit::Stalled);
                        kill_all(pid);
                    }
                }
                cont(tid, 0);
            } else {
                // syscall exit
                task.in_syscall = false;
                if let Some(ret) = task.force_ret.take() {
                    regs.rax = ret as u64;
                    setregs(tid, &regs);
                }
                let ret = regs.rax as i64;
                if let Some((buf, len)) = task.random_buf.take() {
                    if ret > 0 {
                        let bytes = run.rand_bytes((ret as u64).min(len) as usize);
                        write_mem(tid, buf, &bytes);
                    }
                }
                if let Some(i) = task.cur.take() {
                    run.ops[i].ret = ret;
                    let (name, class, fd, path, obj) = {
                        let o = &run.ops[i];
                        (
                            o.name.clone(),
                            o.class,
                            o.fd,
                            o.path.clone(),
                            o.obj.clone(),
                        )
                    };
                    // bookkeeping of descriptors and cwd
                    if ret >= 0 {
                        match (class, name.as_str()) {
                            (Class::Open, _) | (Class::Exe, "open" | "openat" | "openat2") => {
                                if let Some(p) = path {
                                    if let Some((real, alias)) = task.creating.take() {
                                        run.tmp_alias.insert(real, alias);
                                    }
                                    run.fds.insert(ret as i32, p);
                                }
                            }
                            (Class::Fd, "close") => {
                                if let Some(fd) = fd {
                                    run.fds.remove(&fd);
                                }
                            }
                            (Class::Fd, "dup" | "dup2" | "dup3") => {
                                if let Some(o) = obj {
                                    run.fds.insert(ret as i32, o);
                                }
                            }
                            (Class::Fd, "fcntl") => {
                                // F_DUPFD = 0, F_DUPFD_CLOEXEC = 1030
                                let cmd = regs.rsi;
                                if cmd == 0 || cmd == 1030 {
                                    if let Some(o) = obj {
                                        run.fds.insert(ret as i32, o);
                                    }
                                }
                            }
                            (Class::Cwd, "chdir") => {
                                if let Some(p) = path {
                                    run.cwd = if p.starts_with(ROOT_TOKEN) {
                                        format!("{}{}", run.root, &p[ROOT_TOKEN.len()..])
                                    } else {
                                        p
                                    };
                                }
                            }
                            (Class::Read, _) if obj.as_deref() == Some("stdin") => {
                                run.stdin_delivered += ret as u64;
                            }
                            _ => {}
                        }
                    }
                }
                if task.kill_after {
                    task.kill_after = false;
                    let seq = run.ops.iter().rev().find_map(|o| o.seq).unwrap_or(0);
                    planned_exit = Some(Exit::Killed(seq));
                    kill_all(pid);
                }
                cont(tid, 0);
            }
        } else if sig == libc::SIGTRAP && event != 0 {
            // clone/fork event on the parent: the new task will show up by itself
            cont(tid, 0);
        } else if sig == libc::SIGSTOP && !task.in_syscall && tid != pid {
            // initial stop of a new thread
            cont(tid, 0);
        } else {
            // signal-delivery stop: pass it on
            cont(tid, sig);
        }
    }

    // reap stragglers (threads of a killed group)
    loop {
        let mut st = 0;
        let r = unsafe {
            libc::waitpid(
                -1,
                &mut st,
                libc::__WALL | libc::__WNOTHREAD | libc::WNOHANG,
            )
        };
        if r <= 0 {
            break;
        }
    }

    let t_loop = t_start.elapsed();
    let stdout = match pty_reader.take() {
        // every process holding the slave side is gone: the master side reports the end
        Some(h) => h.join().unwrap_or_default(),
        None => std::fs::read(sb.io.join("stdout")).unwrap_or_default(),
    };
    let stderr = std::fs::read(sb.io.join("stderr")).unwrap_or_default();
    let unroot = |b: Vec<u8>| -> Vec<u8> {
        if contains(&b, root.as_bytes()) {
            replace_bytes(&b, root.as_bytes(), ROOT_TOKEN.as_bytes())
        } else {
            b
        }
    };
    let files_after = sb.snapshot();
    let unfired = run.fault_fired.iter().filter(|f| !**f).count();
    if prof {
        eprintln!("simos prof: materialise {t_mat:?} spawn {t_spawn:?} loop {t_loop:?} total {:?}", t_start.elapsed());
    }
    Ok(History {
        counted: run.next_seq,
        ops: run.ops,
        exit,
        stdout: Blob(unroot(stdout)),
        stderr: Blob(unroot(stderr)),
        files_after,
        fired: run.fired,
        unfired,
        diverged: run.diverged,
    })
}

/// Where sandboxes live.
pub fn scratch_base() -> PathBuf {
    let t = std::env::var_os("VF_SCRATCH")
        .or_else(|| std::env::var_os("TMPDIR"))
        .map(PathBuf::from)
        .unwrap_or_else(|| PathBuf::from("/var/tmp"));
    // fixed width: the length of the sandbox path must not depend on the process id
    t.join(format!("vf-{:07}", std::process::id()))
}

#[allow(dead_code)]
fn _unused(_: CString, _: &std::ffi::OsStr) {
    let _ = std::ffi::OsStr::new("").as_bytes();
}
