//! `simos`: a deterministic, fault-injecting operating-system boundary around the real
//! `jaq` binary, built on ptrace (see DESIGN.md §2.1).
pub mod sys;
pub mod sysnames;
pub mod tracer;
pub mod world;

pub use tracer::{run, Exit, FileState, History, Op, Sandbox, TraceError};
pub use world::*;
