//! Classification of x86-64 system calls into operation classes.
use crate::sysnames::{MAX_NR, NAMES};
use crate::world::Class;

pub fn name(nr: i64) -> &'static str {
    if nr >= 0 && (nr as usize) <= MAX_NR && !NAMES[nr as usize].is_empty() {
        NAMES[nr as usize]
    } else {
        "unknown"
    }
}

/// How the arguments of a call are to be read.
#[derive(Clone, Copy, Debug, PartialEq, Eq)]
pub enum Shape {
    /// (path, ..)
    Path0,
    /// (dirfd, path, ..)
    At01,
    /// (old, new)
    Path01,
    /// (olddirfd, old, newdirfd, new, ..)
    At0123,
    /// symlink(target, linkpath)
    Symlink,
    /// symlinkat(target, newdirfd, linkpath)
    SymlinkAt,
    /// (fd, ..)
    Fd0,
    /// mmap: fd is argument 4
    Mmap,
    /// (fd_in, _, fd_out, ..) copy_file_range / sendfile(out, in)
    Fd02,
    /// no object
    None,
}

pub fn classify(name: &str) -> (Class, Shape) {
    use Class::*;
    use Shape::*;
    match name {
        "open" | "creat" => (Open, Path0),
        "openat" | "openat2" => (Open, At01),
        "stat" | "lstat" | "access" | "readlink" | "statfs" | "getxattr" | "lgetxattr"
        | "listxattr" | "llistxattr" => (Stat, Path0),
        "newfstatat" | "statx" | "faccessat" | "faccessat2" | "readlinkat" => (Stat, At01),
        "fstat" | "fstatfs" | "fgetxattr" | "flistxattr" => (Stat, Fd0),
        "read" | "pread64" | "readv" | "preadv" | "preadv2" => (Read, Fd0),
        "write" | "pwrite64" | "writev" | "pwritev" | "pwritev2" => (Write, Fd0),
        "mmap" => (Map, Mmap),
        "rename" => (Rename, Path01),
        "renameat" | "renameat2" => (Rename, At0123),
        "unlink" | "rmdir" => (Unlink, Path0),
        "unlinkat" => (Unlink, At01),
        "link" => (Link, Path01),
        "linkat" => (Link, At0123),
        "symlink" => (Link, Symlink),
        "symlinkat" => (Link, SymlinkAt),
        "mkdir" | "mknod" => (Mkdir, Path0),
        "mkdirat" | "mknodat" => (Mkdir, At01),
        "chmod" | "chown" | "lchown" | "truncate" | "utime" | "utimes" | "setxattr"
        | "lsetxattr" | "removexattr" | "lremovexattr" => (Mode, Path0),
        "fchmodat" | "fchmodat2" | "fchownat" | "utimensat" | "futimesat" => (Mode, At01),
        "fchmod" | "fchown" | "ftruncate" | "fallocate" | "fsetxattr" | "fremovexattr" => {
            (Mode, Fd0)
        }
        "close" | "dup" | "dup2" | "dup3" | "fcntl" | "ioctl" | "lseek" | "flock" | "fadvise64"
        | "readahead" => (Fd, Fd0),
        "fsync" | "fdatasync" | "sync_file_range" | "syncfs" => (Sync, Fd0),
        "copy_file_range" | "splice" | "tee" => (Write, Fd02),
        "sendfile" => (Write, Fd02),
        "getdents" | "getdents64" => (Dirent, Fd0),
        "getcwd" => (Cwd, None),
        "chdir" => (Cwd, Path0),
        "fchdir" => (Cwd, Fd0),
        "getrandom" => (Random, None),
        // other worlds: always denied
        "socket" | "connect" | "accept" | "accept4" | "sendto" | "recvfrom" | "sendmsg"
        | "recvmsg" | "sendmmsg" | "recvmmsg" | "shutdown" | "bind" | "listen"
        | "getsockname" | "getpeername" | "socketpair" | "setsockopt" | "getsockopt" | "fork"
        | "vfork" | "clone3" | "execve" | "execveat" | "ptrace" | "mount" | "umount2"
        | "pivot_root" | "chroot" | "io_uring_setup" | "io_uring_enter" | "io_uring_register"
        | "process_vm_readv" | "process_vm_writev" | "init_module" | "finit_module"
        | "delete_module" | "kexec_load" | "reboot" | "swapon" | "swapoff" | "sethostname"
        | "setdomainname" | "unshare" | "setns" | "bpf" | "perf_event_open" | "userfaultfd" | "pidfd_send_signal" | "inotify_init" | "inotify_init1" | "fanotify_init"
        | "name_to_handle_at" | "open_by_handle_at" | "open_tree" | "move_mount" | "fsopen"
        | "fsmount" | "fspick" | "mount_setattr" | "acct" | "quotactl" | "add_key"
        | "request_key" | "keyctl" => {
            (Forbidden, None)
        }
        // clone / kill / tgkill are decided on their arguments by the tracer
        _ => (Uncounted, None),
    }
}

pub const CLONE_THREAD: u64 = 0x0001_0000;

pub fn errno_name(e: i32) -> &'static str {
    match e {
        libc::ENOENT => "ENOENT",
        libc::EACCES => "EACCES",
        libc::EMFILE => "EMFILE",
        libc::EISDIR => "EISDIR",
        libc::ELOOP => "ELOOP",
        libc::ENOSPC => "ENOSPC",
        libc::EIO => "EIO",
        libc::EPIPE => "EPIPE",
        libc::EDQUOT => "EDQUOT",
        libc::EXDEV => "EXDEV",
        libc::EROFS => "EROFS",
        libc::EPERM => "EPERM",
        libc::ENODEV => "ENODEV",
        libc::ENOMEM => "ENOMEM",
        libc::EINTR => "EINTR",
        libc::EEXIST => "EEXIST",
        libc::ENOTDIR => "ENOTDIR",
        libc::EBADF => "EBADF",
        libc::EINVAL => "EINVAL",
        libc::EAGAIN => "EAGAIN",
        libc::ENOSYS => "ENOSYS",
        libc::EFBIG => "EFBIG",
        libc::ENAMETOOLONG => "ENAMETOOLONG",
        _ => "E?",
    }
}
