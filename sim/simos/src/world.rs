//! A *world* is a value: everything the simulated run of the `jaq` binary can observe.
//!
//! Paths are relative to the sandbox root. The literal string `/@ROOT` inside argv,
//! environment values, symlink targets and file contents marked `subst` is replaced by the
//! absolute sandbox root when the world is materialised, and replaced back in everything the
//! run reports, so histories do not depend on where the sandbox lives.
use serde::{Deserialize, Serialize};

pub const ROOT_TOKEN: &str = "/@ROOT";

/// Bytes that serialise as text when they are UTF-8 and as base64 otherwise.
#[derive(Clone, Debug, PartialEq, Eq, Hash, Default, PartialOrd, Ord)]
pub struct Blob(pub Vec<u8>);

impl Serialize for Blob {
    fn serialize<S: serde::Serializer>(&self, s: S) -> Result<S::Ok, S::Error> {
        use serde::ser::SerializeMap;
        let mut m = s.serialize_map(Some(1))?;
        match std::str::from_utf8(&self.0) {
            Ok(t) => m.serialize_entry("text", t)?,
            Err(_) => {
                use base64::Engine;
                let b = base64::engine::general_purpose::STANDARD.encode(&self.0);
                m.serialize_entry("b64", &b)?
            }
        }
        m.end()
    }
}

impl<'de> Deserialize<'de> for Blob {
    fn deserialize<D: serde::Deserializer<'de>>(d: D) -> Result<Self, D::Error> {
        #[derive(Deserialize)]
        struct Raw {
            text: Option<String>,
            b64: Option<String>,
        }
        let r = Raw::deserialize(d)?;
        if let Some(t) = r.text {
            Ok(Blob(t.into_bytes()))
        } else if let Some(b) = r.b64 {
            use base64::Engine;
            base64::engine::general_purpose::STANDARD
                .decode(b)
                .map(Blob)
                .map_err(serde::de::Error::custom)
        } else {
            Err(serde::de::Error::custom("blob needs text or b64"))
        }
    }
}

impl From<&str> for Blob {
    fn from(s: &str) -> Self {
        Blob(s.as_bytes().to_vec())
    }
}
impl From<Vec<u8>> for Blob {
    fn from(s: Vec<u8>) -> Self {
        Blob(s)
    }
}
impl From<String> for Blob {
    fn from(s: String) -> Self {
        Blob(s.into_bytes())
    }
}

#[derive(Clone, Debug, Serialize, Deserialize, PartialEq, Eq, Hash, PartialOrd, Ord)]
pub enum Kind {
    File,
    Dir,
    /// target; `/@ROOT` is substituted
    Symlink(String),
    /// another name (hard link) of the regular file at this root-relative path
    Hardlink(String),
    /// a named pipe whose writer has written `bytes` and hangs up when the reader starts to read
    /// (what `<(cmd)` or `mkfifo` + a producer look like to the reader: size 0, no mmap, no seek)
    Fifo,
}

#[derive(Clone, Debug, Serialize, Deserialize, PartialEq, Eq)]
pub struct FileSpec {
    pub path: String,
    pub kind: Kind,
    #[serde(default)]
    pub bytes: Blob,
    pub mode: u32,
}

impl FileSpec {
    pub fn file(path: impl Into<String>, bytes: impl Into<Blob>, mode: u32) -> Self {
        Self {
            path: path.into(),
            kind: Kind::File,
            bytes: bytes.into(),
            mode,
        }
    }
    pub fn dir(path: impl Into<String>) -> Self {
        Self {
            path: path.into(),
            kind: Kind::Dir,
            bytes: Blob::default(),
            mode: 0o755,
        }
    }
    pub fn fifo(path: impl Into<String>, bytes: impl Into<Blob>) -> Self {
        Self {
            path: path.into(),
            kind: Kind::Fifo,
            bytes: bytes.into(),
            mode: 0o644,
        }
    }
    pub fn hardlink(path: impl Into<String>, target: impl Into<String>) -> Self {
        Self {
            path: path.into(),
            kind: Kind::Hardlink(target.into()),
            bytes: Blob::default(),
            mode: 0o644,
        }
    }
    pub fn symlink(path: impl Into<String>, target: impl Into<String>) -> Self {
        Self {
            path: path.into(),
            kind: Kind::Symlink(target.into()),
            bytes: Blob::default(),
            mode: 0o777,
        }
    }
}

/// What a `read(0, ..)` meets once the scripted bytes are used up.
#[derive(Clone, Copy, Debug, Serialize, Deserialize, PartialEq, Eq, Default)]
pub enum StdinEnd {
    #[default]
    Eof,
    /// the data "never arrives": the run is ended and classified `Stalled`
    Stall,
    Fail(i32),
}

#[derive(Clone, Copy, Debug, Serialize, Deserialize, PartialEq, Eq)]
pub enum StdinStep {
    /// deliver at most this many bytes to the next read
    Chunk(u32),
    /// the next read fails with EINTR (no bytes consumed)
    Eintr,
}

#[derive(Clone, Debug, Serialize, Deserialize, PartialEq, Eq, Default)]
pub struct Stdin {
    pub bytes: Blob,
    /// applied to successive reads on fd 0; when exhausted, reads are unrestricted
    #[serde(default)]
    pub script: Vec<StdinStep>,
    /// if non-empty and `cycle`, the script restarts when exhausted
    #[serde(default)]
    pub cycle: bool,
    #[serde(default)]
    pub end: StdinEnd,
}

/// Operation classes: what kind of thing a system call does. Fault menus hang off these.
#[derive(Clone, Copy, Debug, Serialize, Deserialize, PartialEq, Eq, Hash, PartialOrd, Ord)]
pub enum Class {
    Open,
    Stat,
    Read,
    Write,
    Map,
    Rename,
    Unlink,
    Link,
    Mkdir,
    Mode,
    Fd,
    Sync,
    Cwd,
    Exe,
    Dirent,
    Random,
    /// network, process creation, exec, kill, ptrace, mount, io_uring: always denied
    Forbidden,
    /// not a fault or kill point
    Uncounted,
}

/// Which object an addressed fault applies to.
#[derive(Clone, Debug, Serialize, Deserialize, PartialEq, Eq)]
pub enum Obj {
    Any,
    Stdin,
    Stdout,
    Stderr,
    /// path relative to the root (exact match after normalisation)
    Path(String),
    /// any path in the sandbox that is not one of the three standard streams
    AnyFile,
    /// any path starting with this prefix (absolute, or relative to the root)
    Prefix(String),
}

#[derive(Clone, Debug, Serialize, Deserialize, PartialEq, Eq)]
pub enum At {
    /// the counted operation with this sequence number
    Seq(u32),
    /// the n-th (0-based) counted operation of this class on this object;
    /// `sticky`: also every later one
    Nth {
        class: Class,
        obj: Obj,
        n: u32,
        #[serde(default)]
        sticky: bool,
    },
}

#[derive(Clone, Debug, Serialize, Deserialize, PartialEq, Eq)]
pub enum FaultKind {
    /// the call is skipped and fails with this errno
    Fail(i32),
    /// byte count shrunk to this many (short read / short write)
    Short(u32),
    /// the call is skipped and fails with EINTR
    Eintr,
    /// SIGKILL at the entry of the call (it never happens)
    KillBefore,
    /// SIGKILL right after the call returned
    KillAfter,
    /// write shrunk to n bytes, then SIGKILL
    Torn(u32),
}

#[derive(Clone, Debug, Serialize, Deserialize, PartialEq, Eq)]
pub struct Fault {
    pub at: At,
    pub kind: FaultKind,
    /// op signature ("name object") recorded when the plan was made; checked on replay
    #[serde(default)]
    pub sig: Option<String>,
}

#[derive(Clone, Debug, Serialize, Deserialize, PartialEq, Eq, Default)]
pub struct World {
    pub files: Vec<FileSpec>,
    /// relative to the root
    pub cwd: String,
    pub env: Vec<(String, String)>,
    /// without argv[0]
    pub argv: Vec<String>,
    #[serde(default)]
    pub stdin: Stdin,
    #[serde(default)]
    pub faults: Vec<Fault>,
    /// every rename whose two directories differ fails with EXDEV
    #[serde(default)]
    pub mount_boundary: bool,
    /// seed for the bytes answered to getrandom
    #[serde(default)]
    pub entropy: u64,
    /// file mode creation mask of the process (None: 022)
    #[serde(default)]
    pub umask: Option<u32>,
    /// standard output is a terminal (a pseudo-terminal in raw mode) instead of a file
    #[serde(default)]
    pub stdout_tty: bool,
}

impl World {
    pub fn subst(s: &str, root: &str) -> String {
        s.replace(ROOT_TOKEN, root)
    }
    pub fn unsubst(s: &str, root: &str) -> String {
        s.replace(root, ROOT_TOKEN)
    }
}
