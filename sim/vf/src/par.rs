//! Run indexed tasks on worker threads; results come back in task order, so nothing depends on
//! the number of workers or on completion order.
use std::sync::atomic::{AtomicBool, AtomicUsize, Ordering};
use std::sync::Mutex;

pub fn par_map<T: Sync, W, R: Send>(
    tasks: &[T],
    workers: usize,
    init: impl Fn(usize) -> W + Sync,
    f: impl Fn(&mut W, usize, &T) -> R + Sync,
) -> Vec<R> {
    let next = AtomicUsize::new(0);
    let out: Mutex<Vec<Option<R>>> = Mutex::new((0..tasks.len()).map(|_| None).collect());
    let workers = workers.max(1).min(tasks.len().max(1));
    let panicked = AtomicBool::new(false);
    std::thread::scope(|s| {
        for k in 0..workers {
            let (next, out, init, f, panicked) = (&next, &out, &init, &f, &panicked);
            std::thread::Builder::new()
                .name(format!("vf-worker-{k}"))
                .stack_size(64 << 20)
                .spawn_scoped(s, move || {
                    let mut w = init(k);
                    loop {
                        let i = next.fetch_add(1, Ordering::SeqCst);
                        if i >= tasks.len() || panicked.load(Ordering::SeqCst) {
                            break;
                        }
                        let r = f(&mut w, i, &tasks[i]);
                        out.lock().unwrap()[i] = Some(r);
                    }
                })
                .expect("spawn worker");
        }
    });
    let v = out.into_inner().unwrap();
    v.into_iter()
        .map(|r| r.expect("task not completed (worker panicked)"))
        .collect()
}

// -----------------------------------------------------------------------------------------
// process-isolated workers for in-process checks: a case that overflows the stack, exhausts
// memory or never returns takes down (or blocks) only its worker process; the parent knows
// which case it was and goes on.

use crate::common::{CaseOut, Cfg, Harness};
use std::io::{BufRead, BufReader};
use std::process::{Command, Stdio};

#[derive(Debug)]
pub enum CaseEnd {
    Done(CaseOut),
    /// the worker process died (signal / abort) while running this case
    Crashed(String),
    /// the worker did not come back within the limit and was killed
    Hung,
    /// not run: the check stopped early because several cases had already crashed or hung
    Skipped,
}

/// Child side: run cases `start, start+stride, ..` below `n`, one line of JSON per case.
pub fn worker_loop(start: u64, stride: u64, n: u64, mut f: impl FnMut(u64) -> CaseOut) {
    use std::io::Write;
    // bounded address space: runaway allocation fails fast instead of exhausting the machine
    unsafe {
        let lim = libc::rlimit { rlim_cur: 6 << 30, rlim_max: 6 << 30 };
        libc::setrlimit(libc::RLIMIT_AS, &lim);
        let core = libc::rlimit { rlim_cur: 0, rlim_max: 0 };
        libc::setrlimit(libc::RLIMIT_CORE, &core);
    }
    let out = std::io::stdout();
    let mut i = start;
    while i < n {
        {
            let mut o = out.lock();
            let _ = writeln!(o, "S {i}");
            let _ = o.flush();
        }
        let r = f(i);
        let mut o = out.lock();
        let _ = writeln!(o, "R {i} {}", serde_json::to_string(&r).unwrap());
        let _ = o.flush();
        i += stride;
    }
}

/// Parent side: results for cases 0..n in index order.
pub fn proc_map(cfg: &Cfg, id: &str, n: u64, hang_secs: u64) -> Result<Vec<CaseEnd>, Harness> {
    let exe = std::env::current_exe()?;
    let workers = (cfg.workers.max(1) as u64).min(n.max(1));
    let results: std::sync::Mutex<Vec<Option<CaseEnd>>> = std::sync::Mutex::new((0..n).map(|_| None).collect());
    let err: std::sync::Mutex<Option<String>> = std::sync::Mutex::new(None);
    // after this many crashed / hung cases the remaining ones are skipped: the violation is
    // established, and a change that makes every case hang must not stall the check for hours
    let abnormal = std::sync::atomic::AtomicUsize::new(0);
    const MAX_ABNORMAL: usize = 3;
    std::thread::scope(|s| {
        for k in 0..workers {
            let (results, err, exe, abnormal) = (&results, &err, &exe, &abnormal);
            s.spawn(move || {
                let mut start = k;
                while start < n {
                    if abnormal.load(std::sync::atomic::Ordering::SeqCst) >= MAX_ABNORMAL {
                        break;
                    }
                    let mut child = match Command::new(exe)
                        .args(["worker", id, &start.to_string(), &workers.to_string(), &n.to_string()])
                        .env("VERIF_SEED", cfg.seed.to_string())
                        .env("VERIF_TIER", cfg.tier.name())
                        .stdin(Stdio::null())
                        .stdout(Stdio::piped())
                        .stderr(Stdio::null())
                        .spawn()
                    {
                        Ok(c) => c,
                        Err(e) => {
                            *err.lock().unwrap() = Some(format!("cannot start worker: {e}"));
                            return;
                        }
                    };
                    let pid = child.id() as i32;
                    let stdout = child.stdout.take().unwrap();
                    // watchdog: kills the child if the current case takes too long
                    let tick = std::sync::Arc::new(std::sync::atomic::AtomicU64::new(0));
                    let done = std::sync::Arc::new(std::sync::atomic::AtomicBool::new(false));
                    let killed = std::sync::Arc::new(std::sync::atomic::AtomicBool::new(false));
                    let (t2, d2, k2) = (tick.clone(), done.clone(), killed.clone());
                    let wd = std::thread::spawn(move || {
                        let mut last = 0;
                        let mut since = std::time::Instant::now();
                        while !d2.load(std::sync::atomic::Ordering::SeqCst) {
                            std::thread::sleep(std::time::Duration::from_millis(200));
                            let now = t2.load(std::sync::atomic::Ordering::SeqCst);
                            if now != last {
                                last = now;
                                since = std::time::Instant::now();
                            } else if since.elapsed().as_secs() >= hang_secs {
                                k2.store(true, std::sync::atomic::Ordering::SeqCst);
                                unsafe { libc::kill(pid, libc::SIGKILL) };
                                return;
                            }
                        }
                    });
                    let mut current: Option<u64> = None;
                    let mut next_start = n;
                    let mut stop = false;
                    for line in BufReader::new(stdout).lines() {
                        let Ok(line) = line else { break };
                        if abnormal.load(std::sync::atomic::Ordering::SeqCst) >= MAX_ABNORMAL {
                            // the check is being wound up
                            unsafe { libc::kill(pid, libc::SIGKILL) };
                            stop = true;
                            break;
                        }
                        tick.fetch_add(1, std::sync::atomic::Ordering::SeqCst);
                        if let Some(i) = line.strip_prefix("S ") {
                            current = i.trim().parse().ok();
                        } else if let Some(rest) = line.strip_prefix("R ") {
                            if let Some((i, js)) = rest.split_once(' ') {
                                if let (Ok(i), Ok(out)) = (i.parse::<u64>(), serde_json::from_str::<CaseOut>(js)) {
                                    results.lock().unwrap()[i as usize] = Some(CaseEnd::Done(out));
                                    if current == Some(i) {
                                        current = None;
                                    }
                                }
                            }
                        }
                    }
                    let status = child.wait();
                    done.store(true, std::sync::atomic::Ordering::SeqCst);
                    let _ = wd.join();
                    if stop {
                        break;
                    }
                    if let Some(i) = current {
                        // the worker ended in the middle of case i
                        let end = if killed.load(std::sync::atomic::Ordering::SeqCst) {
                            CaseEnd::Hung
                        } else {
                            CaseEnd::Crashed(match status {
                                Ok(st) => {
                                    use std::os::unix::process::ExitStatusExt;
                                    match st.signal() {
                                        Some(sig) => format!("signal {sig}"),
                                        None => format!("exit status {:?}", st.code()),
                                    }
                                }
                                Err(e) => e.to_string(),
                            })
                        };
                        results.lock().unwrap()[i as usize] = Some(end);
                        abnormal.fetch_add(1, std::sync::atomic::Ordering::SeqCst);
                        next_start = i + workers;
                    } else if !matches!(&status, Ok(st) if st.success()) {
                        *err.lock().unwrap() = Some(format!("worker ended abnormally outside a case: {status:?}"));
                        return;
                    }
                    start = next_start;
                }
            });
        }
    });
    if let Some(e) = err.into_inner().unwrap() {
        return Err(Harness(e));
    }
    let aborted = abnormal.load(std::sync::atomic::Ordering::SeqCst) >= MAX_ABNORMAL;
    let v = results.into_inner().unwrap();
    let mut out = Vec::with_capacity(v.len());
    for (i, r) in v.into_iter().enumerate() {
        out.push(match r {
            Some(r) => r,
            None if aborted => CaseEnd::Skipped,
            None => return Err(Harness(format!("no result for case {i}"))),
        });
    }
    Ok(out)
}

/// Run `vf <args>` in a child process and classify how it ended (used by replay).
pub fn isolated(args: &[&str], hang_secs: u64) -> Result<(Option<i32>, String, Option<String>), Harness> {
    let exe = std::env::current_exe()?;
    let mut child = Command::new(exe)
        .args(args)
        .stdin(Stdio::null())
        .stdout(Stdio::piped())
        .stderr(Stdio::null())
        .spawn()?;
    let pid = child.id() as i32;
    let done = std::sync::Arc::new(std::sync::atomic::AtomicBool::new(false));
    let killed = std::sync::Arc::new(std::sync::atomic::AtomicBool::new(false));
    let (d2, k2) = (done.clone(), killed.clone());
    let wd = std::thread::spawn(move || {
        let t = std::time::Instant::now();
        while !d2.load(std::sync::atomic::Ordering::SeqCst) {
            std::thread::sleep(std::time::Duration::from_millis(200));
            if t.elapsed().as_secs() >= hang_secs {
                k2.store(true, std::sync::atomic::Ordering::SeqCst);
                unsafe { libc::kill(pid, libc::SIGKILL) };
                return;
            }
        }
    });
    let mut out = String::new();
    use std::io::Read;
    child.stdout.take().unwrap().read_to_string(&mut out)?;
    let st = child.wait()?;
    done.store(true, std::sync::atomic::Ordering::SeqCst);
    let _ = wd.join();
    use std::os::unix::process::ExitStatusExt;
    let abnormal = if killed.load(std::sync::atomic::Ordering::SeqCst) {
        Some(format!("did not come back within {hang_secs} s"))
    } else {
        st.signal().map(|s| format!("died with signal {s}"))
    };
    Ok((st.code(), out, abnormal))
}
