//! Run indexed tasks on worker threads; results come back in task order, so nothing depends on
//! the number of workers or on completion order.
use std::sync::atomic::{AtomicBool, AtomicUsize, Ordering};
use std::sync::Mutex;

pub fn par_map<T: Sync, W, R: Send>(
    tasks: &[T],
    workers: usize,
    init: impl Fn(usize) -> W + Sync,
    f: impl Fn(&mut W, usize, &T) -> R + Sync,
) -> Vec<R> {
    let next = AtomicUsize::new(0);
    let out: Mutex<Vec<Option<R>>> = Mutex::new((0..tasks.len()).map(|_| None).collect());
    let workers = workers.max(1).min(tasks.len().max(1));
    let panicked = AtomicBool::new(false);
    std::thread::scope(|s| {
        for k in 0..workers {
            let (next, out, init, f, panicked) = (&next, &out, &init, &f, &panicked);
            std::thread::Builder::new()
                .name(format!("vf-worker-{k}"))
                .stack_size(64 << 20)
                .spawn_scoped(s, move || {
                    let mut w = init(k);
                    loop {
                        let i = next.fetch_add(1, Ordering::SeqCst);
                        if i >= tasks.len() || panicked.load(Ordering::SeqCst) {
                            break;
                        }
                        let r = f(&mut w, i, &tasks[i]);
                        out.lock().unwrap()[i] = Some(r);
                    }
                })
                .expect("spawn worker");
        }
    });
    let v = out.into_inner().unwrap();
    v.into_iter()
        .map(|r| r.expect("task not completed (worker panicked)"))
        .collect()
}
