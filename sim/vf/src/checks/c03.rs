//! C03 — streams are produced on demand; consumers of a prefix never run the rest.
//! Engine: simlib. The tree's compiler and interpreter run generated stream terms whose
//! sub-terms carry observable effects (probes, bombs, input consumption); the consumer pulls
//! exactly k outputs; the logged history must be contained in the prefix of the definitional
//! left-to-right trace (model/lazy.rs) that precedes the k-th output.
use crate::common::*;
use crate::model::lazy::{self, Env, Step, C, T, V, X};
use crate::par::par_map;
use crate::rng::Rng;
use crate::simlib::{self, Ev, InputEnd, Log, SimData, SimInputs, SimKind};
use jaq_all::jaq_core::{Ctx, Vars};
use jaq_all::jaq_std::input::RcIter;
use jaq_all::json::Val;
use serde::{Deserialize, Serialize};
use serde_json::json;
use std::collections::{BTreeMap, BTreeSet};

pub const ID: &str = "C03";
/// outputs considered per case
const K: usize = 10;
const MODEL_FUEL: u64 = 6_000;
const IMPL_FUEL: u64 = 3_000;

#[derive(Clone, Debug, Serialize, Deserialize)]
pub struct Case {
    pub term: T,
    /// the program text handed to the compiler (derived from `term`; kept for the reader)
    pub text: String,
    pub dot: V,
    pub inputs: Vec<V>,
    pub end: InputEnd,
    /// cut used for the drop test
    pub drop_at: usize,
}

// -----------------------------------------------------------------------------------------
// model side

pub struct ModelTrace {
    /// effects logged before the k-th output is delivered (index k-1), cumulative
    pub before_out: Vec<Vec<Ev>>,
    pub outs: Vec<V>,
    /// all effects up to the end of the run (if it ended within the bounds)
    pub all: Vec<Ev>,
    /// "end" | "error" | "fuel" | "more"
    pub end: &'static str,
}

pub fn run_model(c: &Case) -> ModelTrace {
    let env = Env::new(c.dot.clone(), c.inputs.clone(), c.end, MODEL_FUEL);
    let mut s = lazy::eval(&c.term, &env);
    let mut effects = Vec::new();
    let mut before_out = Vec::new();
    let mut outs = Vec::new();
    let end;
    loop {
        match s.next() {
            None => {
                end = "end";
                break;
            }
            Some(Step::E(e)) => effects.push(e),
            Some(Step::Out(v)) => {
                before_out.push(effects.clone());
                outs.push(v);
                if outs.len() >= K {
                    end = "more";
                    break;
                }
            }
            Some(Step::Err(X::Fuel)) => {
                end = "fuel";
                break;
            }
            Some(Step::Err(_)) => {
                end = "error";
                break;
            }
        }
    }
    ModelTrace { before_out, outs, all: effects, end }
}

// -----------------------------------------------------------------------------------------
// implementation side

pub struct ImplTrace {
    /// log snapshot right after the k-th output was delivered
    pub at_out: Vec<Vec<Ev>>,
    pub outs: Vec<String>,
    /// "end" | "error" | "more"
    pub end: &'static str,
    pub at_end: Vec<Ev>,
    /// events logged by dropping the iterator after `pulled` outputs (must be none)
    pub drop_logged: usize,
}

fn to_val(v: &V) -> Val {
    jaq_all::fmts::read::json::parse_single(v.json().as_bytes()).expect("model value is JSON")
}

pub fn program_text(t: &T) -> String {
    format!("{}{}", lazy::PRELUDE, t.text())
}

/// Pull up to `max` outputs; if `drop_after` is given, stop after that many and drop.
pub fn run_impl(c: &Case, max: usize, drop_after: Option<usize>) -> Result<ImplTrace, String> {
    let filter = simlib::compile(&program_text(&c.term))?;
    let log = Log::new(IMPL_FUEL);
    let inputs = SimInputs::new(c.inputs.iter().map(to_val).collect(), c.end, &log);
    let boxed: Box<dyn Iterator<Item = Result<Val, String>> + '_> = Box::new(inputs);
    let rc = RcIter::new(boxed);
    let data = SimData { lut: &filter.lut, inputs: &rc, log: &log };
    let ctx = Ctx::<SimKind>::new(&data, Vars::new([]));
    let mut it = filter.id.run((ctx, to_val(&c.dot)));
    let mut at_out = Vec::new();
    let mut outs = Vec::new();
    let mut end = "more";
    let limit = drop_after.unwrap_or(max);
    while outs.len() < limit {
        match it.next() {
            None => {
                end = "end";
                break;
            }
            Some(Ok(v)) => {
                outs.push(v.to_string());
                at_out.push(log.snapshot());
            }
            Some(Err(_)) => {
                end = "error";
                break;
            }
        }
    }
    let at_end = log.snapshot();
    let before_drop = log.len();
    drop(it);
    let drop_logged = log.len() - before_drop;
    Ok(ImplTrace { at_out, outs, end, at_end, drop_logged })
}

fn multiset(v: &[Ev]) -> BTreeMap<&Ev, usize> {
    let mut m = BTreeMap::new();
    for e in v {
        *m.entry(e).or_insert(0) += 1;
    }
    m
}

thread_local! {
    /// compare effect histories as sets instead of multisets (terms with effects in path positions:
    /// the tree may build such a stream twice, once to see whether it has a single output)
    static AS_SETS: std::cell::Cell<bool> = const { std::cell::Cell::new(false) };
}

/// events of `a` that `b` does not allow
fn excess(a: &[Ev], b: &[Ev]) -> Vec<Ev> {
    if AS_SETS.with(|s| s.get()) {
        let allowed: BTreeSet<&Ev> = b.iter().collect();
        let mut out: Vec<Ev> = a.iter().filter(|e| !allowed.contains(e)).cloned().collect();
        out.dedup();
        return out;
    }
    let (ma, mb) = (multiset(a), multiset(b));
    let mut out = Vec::new();
    for (e, n) in ma {
        let allowed = mb.get(e).copied().unwrap_or(0);
        for _ in allowed..n {
            out.push(e.clone());
        }
    }
    out
}

pub enum Verdict {
    Ok { cuts: usize, nontrivial: bool },
    Inconclusive(String),
    Violation(String, String),
}

fn show(ev: &[Ev]) -> String {
    ev.iter()
        .map(|e| match e {
            Ev::P(s) => format!("P({s})"),
            Ev::In(j) => format!("In({j})"),
            Ev::Bomb => "Bomb".into(),
            Ev::Fuel => "Fuel".into(),
        })
        .collect::<Vec<_>>()
        .join(" ")
}

pub fn judge(c: &Case) -> Verdict {
    AS_SETS.with(|s| s.set(c.term.has_path_effects()));
    lazy::UNMODELLED.with(|u| u.set(false));
    let m = run_model(c);
    if lazy::UNMODELLED.with(|u| u.get()) {
        return Verdict::Inconclusive("the program indexes with a value that is no integer: not modelled".into());
    }
    let want = m.outs.len();
    // pull one more than the model has (to see the end), but never beyond K - and not at all
    // beyond the model's outputs when the definitional trace itself does not end within its
    // budget: the implementation may then legitimately work for ever too (e.g. collecting an
    // endless fold), which is no laziness violation
    let pulls = if m.end == "end" || m.end == "error" { (want + 1).min(K) } else { want };
    if pulls == 0 {
        // the definitional trace produces nothing within its budget (say, collecting an endless
        // stream into an array): nothing can be asked of the implementation either - and merely
        // building its iterator may already start that endless collection
        return Verdict::Ok { cuts: 0, nontrivial: false };
    }
    let imp = match std::panic::catch_unwind(std::panic::AssertUnwindSafe(|| run_impl(c, pulls, None))) {
        Ok(Ok(i)) => i,
        Ok(Err(e)) => return Verdict::Inconclusive(format!("does not compile: {e}")),
        Err(_) => return Verdict::Inconclusive("interpreter panicked (C05's subject)".into()),
    };
    let mut cuts = 0;
    for k in 0..want {
        let Some(got) = imp.outs.get(k) else {
            // the model has a k-th output, the implementation has not
            if imp.at_end.contains(&Ev::Fuel) {
                return Verdict::Violation(
                    "R3".into(),
                    format!(
                        "output {} of the definitional trace was not delivered within the fuel budget: {} effects logged, e.g. {}",
                        k + 1,
                        imp.at_end.len(),
                        show(&imp.at_end[..imp.at_end.len().min(12)])
                    ),
                );
            }
            let ex = excess(&imp.at_end, &m.before_out[k]);
            if !ex.is_empty() {
                return Verdict::Violation(
                    "R2".into(),
                    format!(
                        "the run ended ({}) before output {} after effects the definition orders after it: {} (logged: {}; definition before output {}: {})",
                        imp.end,
                        k + 1,
                        show(&ex),
                        show(&imp.at_end),
                        k + 1,
                        show(&m.before_out[k])
                    ),
                );
            }
            return Verdict::Inconclusive(format!("semantics differ: model has output {} = {}, implementation ended with {}", k + 1, m.outs[k].json(), imp.end));
        };
        if *got != m.outs[k].json() {
            return Verdict::Inconclusive(format!("semantics differ at output {}: model {}, implementation {got}", k + 1, m.outs[k].json()));
        }
        let ex = excess(&imp.at_out[k], &m.before_out[k]);
        if !ex.is_empty() {
            let class = if ex.contains(&Ev::Fuel) { "R3" } else { "R2" };
            return Verdict::Violation(
                class.into(),
                format!(
                    "when output {} ({got}) was delivered, effects had happened that the definition orders after it: {} (logged: {}; definition: {})",
                    k + 1,
                    show(&ex),
                    show(&imp.at_out[k]),
                    show(&m.before_out[k])
                ),
            );
        }
        cuts += 1;
    }
    // after the last output of the model
    match m.end {
        "end" | "error" => {
            if imp.outs.len() > want {
                return Verdict::Inconclusive(format!("semantics differ: implementation has an extra output {}", imp.outs[want]));
            }
            let ex = excess(&imp.at_end, &m.all);
            if !ex.is_empty() {
                return Verdict::Violation(
                    "R2".into(),
                    format!("effects the definition never performs: {} (logged: {}; definition: {})", show(&ex), show(&imp.at_end), show(&m.all)),
                );
            }
            if (m.end == "end") != (imp.end == "end") {
                return Verdict::Inconclusive(format!("semantics differ at the end: model {}, implementation {}", m.end, imp.end));
            }
        }
        _ => {}
    }
    // R4: dropping the stream after k outputs performs no effect
    if want > 0 {
        let k = 1 + c.drop_at % want;
        match std::panic::catch_unwind(std::panic::AssertUnwindSafe(|| run_impl(c, k, Some(k)))) {
            Ok(Ok(d)) => {
                if d.drop_logged > 0 {
                    return Verdict::Violation("R4".into(), format!("dropping the stream after {k} outputs performed {} effects", d.drop_logged));
                }
                if d.outs.len() == k {
                    let ex = excess(&d.at_out[k - 1], &m.before_out[k - 1]);
                    if !ex.is_empty() {
                        return Verdict::Violation("R2".into(), format!("cut at {k}: {}", show(&ex)));
                    }
                }
            }
            _ => return Verdict::Inconclusive("second run failed".into()),
        }
    }
    // non-trivial: some effect of the definitional trace lies after an output that was cut at
    let total_effects = if m.end == "more" || m.end == "fuel" { usize::MAX } else { m.all.len() };
    let nontrivial = want > 0 && m.before_out.iter().any(|b| b.len() < total_effects);
    Verdict::Ok { cuts, nontrivial }
}

// -----------------------------------------------------------------------------------------
// generation

struct G<'r> {
    rng: &'r mut Rng,
    next_probe: i64,
    vars: Vec<String>,
    labels: Vec<String>,
    nvar: u32,
}

impl G<'_> {
    fn mk(&mut self) -> T {
        self.next_probe += 1;
        T::Mk(self.next_probe)
    }
    fn cond(&mut self) -> C {
        match self.rng.usize(6) {
            0 => C::True,
            1 => C::False,
            2 => C::Eq(self.rng.range(0, 4)),
            3 => C::Lt(self.rng.range(0, 5)),
            _ => C::Ge(self.rng.range(1, 5)),
        }
    }
    fn fresh(&mut self, p: &str) -> String {
        self.nvar += 1;
        format!("{p}{}", self.nvar)
    }
    /// a marker placed where it must (usually) not be reached
    fn hazard(&mut self) -> T {
        match self.rng.usize(9) {
            8 => {
                // halting is an effect of its own: marked by a probe so that reaching it shows
                let m = self.mk();
                T::Pipe(Box::new(m), Box::new(T::Halt))
            }
            0 | 1 | 2 => T::Bomb,
            3 => T::Err,
            4 => T::Input,
            5 => T::Inputs,
            6 => {
                // diverges, with an effect per iteration
                let m = self.mk();
                T::Repeat(Box::new(T::Pipe(Box::new(m), Box::new(T::Empty))))
            }
            _ => self.mk(),
        }
    }
    /// a finite or infinite stream of values with effects
    fn stream(&mut self, d: u32) -> T {
        let bx = Box::new;
        if d == 0 {
            return match self.rng.usize(10) {
                0..=4 => self.mk(),
                5 => T::Lit(self.rng.pick(&[V::Null, V::False, V::Int(0), V::Int(2)]).clone()),
                6 => T::PDot,
                7 => T::Input,
                8 if !self.vars.is_empty() => T::Var(self.rng.pick(&self.vars.clone()).clone()),
                _ => T::Dot,
            };
        }
        match self.rng.usize(47) {
            43 | 44 => {
                // a count that is itself a stream with effects: `limit((1, hazard); F)`
                let c = if self.rng.chance(1, 2) { self.mk() } else { T::Lit(V::Int(self.rng.range(0, 3))) };
                let h = self.hazard();
                let f = self.stream(d - 1);
                let fh = self.hazard();
                T::First(bx(T::LimitZ(bx(T::Comma(bx(c), bx(h))), bx(T::Comma(bx(f), bx(fh))))))
            }
            45 => {
                let c = if self.rng.chance(1, 2) { self.mk() } else { T::Lit(V::Int(self.rng.range(0, 2))) };
                let h = self.hazard();
                T::Limit(self.rng.range(1, 3), bx(T::RangeZ(bx(T::Comma(bx(c), bx(h))), self.rng.range(2, 5))))
            }
            46 => T::Last(bx(self.stream(d - 1))),
            41 | 42 => {
                // an outer label left from inside an inner label that is bound afresh on every round
                // of a recursive definition: `break $a` must reach `$a` however often the
                // definition has called itself, and the hazard behind it stays untouched
                let a = self.fresh("l");
                let b = self.fresh("l");
                let k = self.rng.range(1, 4);
                let step = T::Pipe(bx(T::PDot), bx(T::Inc));
                let which = self.rng.usize(3);
                // (every round performs an effect, so that a program that goes round for ever
                // uses up its fuel instead of hanging)
                let inner = match self.rng.usize(4) {
                    0 => T::If(C::Ge(k), bx(T::Break(a.clone())), bx(step)),
                    1 => T::If(C::Ge(k), bx(T::Comma(bx(T::PDot), bx(T::Break(a.clone())))), bx(step)),
                    2 => T::If(C::Ge(k), bx(T::Break(a.clone())), bx(T::Comma(bx(step), bx(T::Break(b.clone()))))),
                    _ => T::Comma(bx(T::If(C::Ge(k), bx(T::Break(a.clone())), bx(step))), bx(T::Break(b.clone()))),
                };
                let body = T::Label(b, bx(inner));
                let gen = match which {
                    0 => T::Recurse(bx(body)),
                    1 => T::While(C::True, bx(body)),
                    _ => T::Until(C::False, bx(body)),
                };
                let tail = self.hazard();
                T::Label(a, bx(T::Comma(bx(T::Pipe(bx(T::Lit(V::Int(0))), bx(gen))), bx(tail))))
            }
            38..=40 => {
                // value constructors over a stream: cartesian products must stay lazy
                let a = self.stream(d - 1);
                let h = self.hazard();
                let e = bx(T::Comma(bx(a), bx(h)));
                match self.rng.usize(5) {
                    0 => T::Interp(e),
                    1 => T::ObjVal(e),
                    2 => T::AddR(e, self.rng.range(0, 3)),
                    3 => T::AddL(self.rng.range(0, 3), e),
                    _ => T::EqLit(e, self.rng.range(0, 3)),
                }
            }
            36 | 37 => {
                let pd = 1 + self.rng.usize(3) as u32;
                T::PathOf(bx(self.path_term(pd)))
            }
            34 | 35 => {
                // an effectful, multi-valued index or slice bound: definitionally
                // `Z as $z | .[a:$z]`, so what lies behind the consumed bound must not run
                let mut z = self.hazard();
                for _ in 0..1 + self.rng.usize(2) {
                    let m = self.mk();
                    z = T::Comma(bx(m), bx(z));
                }
                if self.rng.chance(1, 2) {
                    T::SliceTo(self.rng.range(0, 2), bx(z))
                } else {
                    T::IndexAt(bx(z))
                }
            }
            0..=4 => {
                let a = self.stream(d - 1);
                let b = if self.rng.chance(1, 3) { self.hazard() } else { self.stream(d - 1) };
                T::Comma(bx(a), bx(b))
            }
            5 | 6 => {
                let a = self.stream(d - 1);
                let b = self.stream(d - 1);
                T::Pipe(bx(a), bx(b))
            }
            7 => {
                let a = self.stream(d - 1);
                let x = self.fresh("x");
                self.vars.push(x.clone());
                let b = self.stream(d - 1);
                self.vars.pop();
                T::As(bx(a), x, bx(b))
            }
            8 => {
                let c = self.cond();
                let a = self.stream(d - 1);
                let b = if self.rng.chance(1, 2) { self.hazard() } else { self.stream(d - 1) };
                if self.rng.chance(1, 2) {
                    T::If(c, bx(a), bx(b))
                } else {
                    T::If(c, bx(b), bx(a))
                }
            }
            9 | 10 => {
                let a = self.stream(d - 1);
                let b = if self.rng.chance(1, 2) { self.hazard() } else { self.stream(d - 1) };
                T::Alt(bx(a), bx(b))
            }
            11 => {
                let a = self.stream(d - 1);
                let n = self.rng.range(0, 3);
                let b = self.stream(d - 1);
                // the handler sees a known input, not the error message
                T::Try(bx(a), bx(T::Pipe(bx(T::Lit(V::Int(n))), bx(b))))
            }
            12 => T::TryQ(bx(self.stream(d - 1))),
            13 | 14 => {
                // label $l | (E | if C then ., break $l else . end), hazard
                let l = self.fresh("l");
                let e = self.stream(d - 1);
                let c = self.cond();
                let body = T::Pipe(
                    bx(e),
                    bx(T::If(c, bx(T::Comma(bx(T::Dot), bx(T::Break(l.clone())))), bx(T::Dot))),
                );
                let tail = self.hazard();
                T::Label(l, bx(T::Comma(bx(body), bx(tail))))
            }
            15 | 16 => {
                let a = self.stream(d - 1);
                let h = self.hazard();
                T::First(bx(T::Comma(bx(a), bx(h))))
            }
            17 | 18 => {
                let a = self.stream(d - 1);
                let h = self.hazard();
                T::Limit(self.rng.range(0, 3), bx(T::Comma(bx(a), bx(h))))
            }
            19 => T::Skip(self.rng.range(0, 2), bx(self.stream(d - 1))),
            20 => {
                let a = self.stream(d - 1);
                let h = self.hazard();
                T::Nth(self.rng.range(0, 2), bx(T::Comma(bx(a), bx(h))))
            }
            21 => {
                let a = self.stream(d - 1);
                let h = self.hazard();
                T::IsEmpty(bx(T::Comma(bx(a), bx(h))))
            }
            22 => {
                let a = self.stream(d - 1);
                let h = self.hazard();
                let c = self.cond();
                if self.rng.chance(1, 2) {
                    T::Any(bx(T::Comma(bx(a), bx(h))), c)
                } else {
                    T::All(bx(T::Comma(bx(a), bx(h))), c)
                }
            }
            23 | 24 => {
                // foreach over a source that may be endless
                let src = match self.rng.usize(4) {
                    0 => T::Inputs,
                    1 => self.infinite(),
                    _ => self.stream(d - 1),
                };
                let x = self.fresh("v");
                self.vars.push(x.clone());
                let upd = self.update(&x);
                self.vars.pop();
                let ext = match self.rng.usize(3) {
                    0 => None,
                    1 => Some(bx(T::Var(x.clone()))),
                    _ => Some(bx(T::PDot)),
                };
                T::Foreach(bx(src), x, self.rng.range(0, 2), bx(upd), ext)
            }
            25 => {
                let src = self.stream(d - 1);
                let x = self.fresh("v");
                let upd = if self.rng.chance(1, 2) { self.update(&x) } else if self.rng.chance(1, 2) { T::Inc } else { T::AddVar(x.clone()) };
                T::Reduce(bx(src), x, 0, bx(upd))
            }
            26 => T::Arr(bx(self.stream(d - 1))),
            27 | 28 | 29 => self.infinite(),
            30 => {
                let (a, b) = (self.rng.range(0, 2), self.rng.range(2, 5));
                T::Pipe(bx(T::Range(a, b, 1)), bx(T::PDot))
            }
            31 => T::Inputs,
            32 => {
                let a = self.stream(d - 1);
                T::Pipe(bx(a), bx(T::Inc))
            }
            _ => self.stream(d - 1),
        }
    }
    fn pass(&mut self) -> T {
        self.next_probe += 1;
        T::Pass(self.next_probe)
    }
    /// a marker that must not be reached, usable in path mode
    fn path_hazard(&mut self) -> T {
        let bx = Box::new;
        match self.rng.usize(5) {
            0 | 1 => T::Bomb,
            2 => {
                let p = self.pass();
                T::Pipe(bx(p), bx(T::Err))
            }
            3 => {
                let p = self.pass();
                T::Repeat(bx(T::Pipe(bx(p), bx(T::Empty))))
            }
            _ => self.pass(),
        }
    }
    /// a path expression (run under `path(..)` on `[[10,20,30],[40,50]]`) with effects
    fn path_term(&mut self, d: u32) -> T {
        let bx = Box::new;
        if d == 0 {
            return match self.rng.usize(6) {
                0 | 1 => T::Idx(self.rng.range(0, 2)),
                2 => T::Iter,
                3 | 4 => self.pass(),
                _ => T::Dot,
            };
        }
        match self.rng.usize(14) {
            13 => {
                // an effectful multi-valued index: `mk` is fine here, the brackets run in value mode
                let mut z = match self.rng.usize(3) {
                    0 => T::Bomb,
                    1 => T::Input,
                    _ => self.mk(),
                };
                for _ in 0..1 + self.rng.usize(2) {
                    self.next_probe += 1;
                    let i = self.rng.range(0, 1);
                    // probe(n) | i : an effect, then a small index
                    let m = T::Pipe(bx(T::Pass(self.next_probe)), bx(T::Lit(V::Int(i))));
                    z = T::Comma(bx(m), bx(z));
                }
                T::IdxZ(bx(z))
            }
            0..=2 => {
                let a = self.path_term(d - 1);
                let b = if self.rng.chance(1, 3) { self.path_hazard() } else { self.path_term(d - 1) };
                T::Comma(bx(a), bx(b))
            }
            3..=5 => {
                let a = self.path_term(d - 1);
                let b = self.path_term(d - 1);
                T::Pipe(bx(a), bx(b))
            }
            6 => {
                let c = self.cond();
                let a = self.path_term(d - 1);
                let b = if self.rng.chance(1, 2) { self.path_hazard() } else { self.path_term(d - 1) };
                T::If(c, bx(a), bx(b))
            }
            7 | 8 => {
                let a = self.path_term(d - 1);
                let h = self.path_hazard();
                T::First(bx(T::Comma(bx(a), bx(h))))
            }
            9 => {
                let a = self.path_term(d - 1);
                let h = self.path_hazard();
                T::Limit(self.rng.range(0, 3), bx(T::Comma(bx(a), bx(h))))
            }
            10 => T::Skip(self.rng.range(0, 2), bx(self.path_term(d - 1))),
            11 => {
                let l = self.fresh("l");
                let e = self.path_term(d - 1);
                let c = self.cond();
                let body = T::Pipe(bx(e), bx(T::If(c, bx(T::Comma(bx(T::Dot), bx(T::Break(l.clone())))), bx(T::Dot))));
                let tail = self.path_hazard();
                T::Label(l, bx(T::Comma(bx(body), bx(tail))))
            }
            _ => T::TryQ(bx(self.path_term(d - 1))),
        }
    }
    /// the update of a fold: one or several outputs, possibly with effects behind the first
    fn update(&mut self, x: &str) -> T {
        let bx = Box::new;
        let one = |g: &mut Self| match g.rng.usize(3) {
            0 => T::Inc,
            1 => T::AddVar(x.to_string()),
            _ => {
                let m = g.mk();
                T::Pipe(bx(m), bx(T::Inc))
            }
        };
        match self.rng.usize(8) {
            0..=3 => one(self),
            4 | 5 => {
                let a = one(self);
                let b = one(self);
                T::Comma(bx(a), bx(b))
            }
            6 => {
                let a = one(self);
                let h = self.hazard();
                T::Comma(bx(a), bx(h))
            }
            _ => {
                let a = one(self);
                T::Comma(bx(T::Empty), bx(a))
            }
        }
    }
    /// an endless generator carrying a probe per iteration
    fn infinite(&mut self) -> T {
        let bx = Box::new;
        match self.rng.usize(7) {
            0 => {
                let m = self.mk();
                T::Rec(bx(m))
            }
            1 => {
                let m = self.mk();
                T::Repeat(bx(m))
            }
            2 => T::Pipe(bx(T::Lit(V::Int(0))), bx(T::Recurse(bx(T::Pipe(bx(T::PDot), bx(T::Inc)))))),
            3 => T::Pipe(bx(T::Lit(V::Int(0))), bx(T::While(C::Ge(0), bx(T::Pipe(bx(T::PDot), bx(T::Inc)))))),
            4 => T::Pipe(bx(T::Range(0, 1, 0)), bx(T::PDot)),
            5 => {
                // until: a single output after finitely many probed steps
                T::Pipe(bx(T::Lit(V::Int(0))), bx(T::Until(C::Ge(self.rng.range(1, 4)), bx(T::Pipe(bx(T::PDot), bx(T::Inc))))))
            }
            _ => {
                let m = self.mk();
                let m2 = self.mk();
                T::Rec(bx(T::Comma(bx(m), bx(m2))))
            }
        }
    }
}

pub fn gen_case(rng: &mut Rng) -> Case {
    let depth = 1 + rng.usize(4) as u32;
    let mut g = G { rng, next_probe: 0, vars: vec![], labels: vec![], nvar: 0 };
    let mut term = g.stream(depth);
    // often: wrap in a prefix consumer with a hazard behind the stream
    if g.rng.chance(1, 3) {
        let h = g.hazard();
        term = T::Comma(Box::new(term), Box::new(h));
    }
    let _ = &g.labels;
    let n_in = rng.usize(5);
    let inputs: Vec<V> = (0..n_in)
        .map(|j| match rng.usize(6) {
            0 => V::Null,
            1 => V::False,
            _ => V::Int(10 + j as i64),
        })
        .collect();
    let end = *rng.pick(&[InputEnd::End, InputEnd::End, InputEnd::Fail, InputEnd::Endless]);
    let dot = rng.pick(&[V::Int(0), V::Int(1), V::Int(2), V::Int(3), V::Null]).clone();
    let text = program_text(&term);
    Case { term, text, dot: dot.clone(), inputs, end, drop_at: rng.usize(16) }
}

// -----------------------------------------------------------------------------------------
// minimisation: replace a sub-term by one of its children or by a leaf

fn subterm_replacements(t: &T) -> Vec<T> {
    let mut out = Vec::new();
    let mut kids: Vec<T> = Vec::new();
    match t {
        T::Comma(a, b) | T::Pipe(a, b) | T::Alt(a, b) | T::Try(a, b) | T::As(a, _, b) | T::If(_, a, b) => {
            kids.push((**a).clone());
            kids.push((**b).clone());
        }
        T::TryQ(a) | T::Label(_, a) | T::First(a) | T::Limit(_, a) | T::Skip(_, a) | T::Nth(_, a) | T::IsEmpty(a)
        | T::Any(a, _) | T::All(a, _) | T::Arr(a) | T::Foreach(a, ..) | T::Reduce(a, ..) => kids.push((**a).clone()),
        _ => {}
    }
    out.extend(kids);
    // rebuild with one child simplified
    macro_rules! two {
        ($ctor:expr, $a:expr, $b:expr) => {{
            for a2 in subterm_replacements($a) {
                out.push($ctor(Box::new(a2), $b.clone()));
            }
            for b2 in subterm_replacements($b) {
                out.push($ctor($a.clone(), Box::new(b2)));
            }
        }};
    }
    match t {
        T::Comma(a, b) => two!(T::Comma, a, b),
        T::Pipe(a, b) => two!(T::Pipe, a, b),
        T::Alt(a, b) => two!(T::Alt, a, b),
        T::Try(a, b) => two!(T::Try, a, b),
        T::As(a, x, b) => {
            for a2 in subterm_replacements(a) {
                out.push(T::As(Box::new(a2), x.clone(), b.clone()));
            }
            for b2 in subterm_replacements(b) {
                out.push(T::As(a.clone(), x.clone(), Box::new(b2)));
            }
        }
        T::If(c, a, b) => {
            for a2 in subterm_replacements(a) {
                out.push(T::If(c.clone(), Box::new(a2), b.clone()));
            }
            for b2 in subterm_replacements(b) {
                out.push(T::If(c.clone(), a.clone(), Box::new(b2)));
            }
        }
        T::TryQ(a) => out.extend(subterm_replacements(a).into_iter().map(|x| T::TryQ(Box::new(x)))),
        T::Label(l, a) => out.extend(subterm_replacements(a).into_iter().map(|x| T::Label(l.clone(), Box::new(x)))),
        T::First(a) => out.extend(subterm_replacements(a).into_iter().map(|x| T::First(Box::new(x)))),
        T::Limit(n, a) => out.extend(subterm_replacements(a).into_iter().map(|x| T::Limit(*n, Box::new(x)))),
        T::Skip(n, a) => out.extend(subterm_replacements(a).into_iter().map(|x| T::Skip(*n, Box::new(x)))),
        T::Nth(n, a) => out.extend(subterm_replacements(a).into_iter().map(|x| T::Nth(*n, Box::new(x)))),
        T::IsEmpty(a) => out.extend(subterm_replacements(a).into_iter().map(|x| T::IsEmpty(Box::new(x)))),
        T::Any(a, c) => out.extend(subterm_replacements(a).into_iter().map(|x| T::Any(Box::new(x), c.clone()))),
        T::All(a, c) => out.extend(subterm_replacements(a).into_iter().map(|x| T::All(Box::new(x), c.clone()))),
        T::Arr(a) => out.extend(subterm_replacements(a).into_iter().map(|x| T::Arr(Box::new(x)))),
        T::Foreach(s, x, i, u, e) => out.extend(
            subterm_replacements(s).into_iter().map(|s2| T::Foreach(Box::new(s2), x.clone(), *i, u.clone(), e.clone())),
        ),
        T::Reduce(s, x, i, u) => {
            out.extend(subterm_replacements(s).into_iter().map(|s2| T::Reduce(Box::new(s2), x.clone(), *i, u.clone())))
        }
        _ => {}
    }
    out
}

fn well_scoped(t: &T, vars: &mut Vec<String>, labels: &mut Vec<String>) -> bool {
    match t {
        T::Var(x) | T::AddVar(x) => vars.contains(x),
        T::Break(l) => labels.contains(l),
        T::As(a, x, b) => {
            if !well_scoped(a, vars, labels) {
                return false;
            }
            vars.push(x.clone());
            let r = well_scoped(b, vars, labels);
            vars.pop();
            r
        }
        T::Label(l, a) => {
            labels.push(l.clone());
            let r = well_scoped(a, vars, labels);
            labels.pop();
            r
        }
        T::Foreach(s, x, _, u, e) => {
            if !well_scoped(s, vars, labels) {
                return false;
            }
            vars.push(x.clone());
            let r = well_scoped(u, vars, labels) && e.as_ref().map_or(true, |e| well_scoped(e, vars, labels));
            vars.pop();
            r
        }
        T::Reduce(s, x, _, u) => {
            if !well_scoped(s, vars, labels) {
                return false;
            }
            vars.push(x.clone());
            let r = well_scoped(u, vars, labels);
            vars.pop();
            r
        }
        T::Comma(a, b) | T::Pipe(a, b) | T::Alt(a, b) | T::Try(a, b) | T::If(_, a, b) => {
            well_scoped(a, vars, labels) && well_scoped(b, vars, labels)
        }
        T::TryQ(a) | T::First(a) | T::Limit(_, a) | T::Skip(_, a) | T::Nth(_, a) | T::IsEmpty(a) | T::Any(a, _)
        | T::All(a, _) | T::Arr(a) | T::Rec(a) | T::Repeat(a) | T::Recurse(a) | T::While(_, a) | T::Until(_, a)
        | T::SliceTo(_, a) | T::IndexAt(a) | T::PathOf(a) | T::IdxZ(a) | T::Interp(a) | T::ObjVal(a) | T::AddR(a, _)
        | T::AddL(_, a) | T::EqLit(a, _) | T::RangeZ(a, _) | T::Last(a) => well_scoped(a, vars, labels),
        T::LimitZ(z, a) => well_scoped(z, vars, labels) && well_scoped(a, vars, labels),
        _ => true,
    }
}

pub fn minimise(case: &Case, class: &str) -> (Case, u32) {
    let mut cur = case.clone();
    let mut steps = 0;
    let mut budget = 300;
    'outer: loop {
        let mut cands: Vec<Case> = Vec::new();
        for t in subterm_replacements(&cur.term) {
            if t.size() < cur.term.size() && well_scoped(&t, &mut vec![], &mut vec![]) {
                let mut c = cur.clone();
                c.text = program_text(&t);
                c.term = t;
                cands.push(c);
            }
        }
        if !cur.inputs.is_empty() {
            let mut c = cur.clone();
            c.inputs.pop();
            cands.push(c);
        }
        cands.sort_by_key(|c| c.term.size());
        for cand in cands {
            if budget == 0 {
                break 'outer;
            }
            budget -= 1;
            if let Verdict::Violation(c, _) = judge(&cand) {
                if c == class {
                    cur = cand;
                    steps += 1;
                    continue 'outer;
                }
            }
        }
        break;
    }
    (cur, steps)
}

// -----------------------------------------------------------------------------------------

fn fingerprint(case: &Case, detail: &str) -> BTreeMap<String, String> {
    let mut m = BTreeMap::new();
    m.insert("shape".into(), case.term.shape());
    m.insert("detail".into(), detail.chars().take(80).collect());
    m
}

/// One case, run inside a worker process.
pub fn case_out(cfg: &Cfg, i: u64) -> CaseOut {
    let mut rng = Rng::for_run(cfg.seed, ID, i);
    let case = gen_case(&mut rng);
    let mut tally = Tally::default();
    let verdict = judge(&case);
    let mut keys = Vec::new();
    let mut viol = None;
    match verdict {
        Verdict::Ok { cuts, nontrivial } => {
            tally.add_n("cuts_checked", cuts as u64);
            if nontrivial {
                keys.push(case.term.shape());
                tally.add("nontrivial");
            }
        }
        Verdict::Inconclusive(why) => {
            tally.add("inconclusive");
            tally.add(format!("inconclusive:{}", why.split(':').next().unwrap_or("").split(" at ").next().unwrap_or("")));
        }
        Verdict::Violation(class, detail) => {
            let (m, steps) = minimise(&case, &class);
            viol = Some(Violation {
                property: ID.into(),
                fingerprint: fingerprint(&m, &detail),
                class,
                detail,
                case: serde_json::to_value(&m).unwrap(),
                seed: cfg.seed,
                run: i,
                minimised_steps: steps,
            });
        }
    }
    let m = if i < 6 { Some(run_model(&case)) } else { None };
    let sample = m.map(|m| {
        json!({"program": case.term.text(), "input": case.dot.json(), "inputs": case.inputs.iter().map(|v| v.json()).collect::<Vec<_>>(),
               "input_end": format!("{:?}", case.end), "model_outputs": m.outs.iter().map(|v| v.json()).collect::<Vec<_>>(),
               "model_effects_before_each_output": m.before_out.iter().map(|b| show(b)).collect::<Vec<_>>(), "model_end": m.end})
    });
    for t in term_tags(&case.term) {
        tally.add(format!("reach:{t}"));
    }
    let digest = hash_str(&format!("{:?}{:?}{:?}", tally.0, keys, viol.as_ref().map(|v| &v.class)));
    CaseOut { digest, viol, tally: tally.0, keys, sample }
}

/// Process level: prefix consumers of the *standard input stream* of the real binary. The data
/// stops arriving after k complete values (the simulated producer keeps the stream open); a
/// consumer whose result is determined by the delivered prefix must have produced it - it must
/// not wait for the (k+1)-th value. Judged by the command-line reference model (C17's), reported
/// here under class R5.
const PREFIX_CONSUMERS: &[(&str, bool)] = &[
    ("first(inputs)", true),
    ("limit(2; inputs)", true),
    ("[limit(2; inputs)]", true),
    ("input", true),
    ("input", false),
    ("isempty(inputs)", true),
    ("., halt", false),
    ("first(inputs | select(. >= 1))", true),
    ("label $l | inputs | ., (if . >= 1 then break $l else empty end)", true),
    ("foreach inputs as $x (0; . + $x)", true),
    ("nth(1; inputs)", true),
    ("first(inputs, error(\"never\"))", true),
    ("if . == 1 then halt else . end", false),
    ("[., input]", false),
    ("inputs | ., (if . == 1 then halt else empty end)", true),
];

fn process_stratum(cfg: &Cfg, tally: &mut Tally, keys: &mut BTreeSet<String>, samples: &mut Vec<serde_json::Value>) -> Result<Vec<Violation>, Harness> {
    use super::c17;
    use crate::model::cli::{End, Invocation};
    use crate::worker::Worker;
    use simos::{Blob, Exit, FileSpec, Stdin, StdinEnd, StdinStep};
    let n = cfg.n(150, 4000);
    let idx: Vec<u64> = (0..n as u64).collect();
    type R = (Option<Violation>, Tally, String, Option<serde_json::Value>);
    let res: Vec<Result<R, Harness>> = par_map(
        &idx,
        cfg.simos_workers,
        |k| Worker::new(cfg, k),
        |wk, _, &i| {
            let wk = wk.as_mut().map_err(|e| Harness(e.0.clone()))?;
            wk.tally = Tally::default();
            let mut rng = Rng::for_run(cfg.seed, "C03proc", i);
            let (filter, null_input) = *rng.pick(PREFIX_CONSUMERS);
            let mut inv = Invocation { null_input, filter: Some(filter.to_string()), compact: true, ..Default::default() };
            inv.env = vec![("PATH".into(), "/usr/bin".into())];
            let raw = rng.chance(1, 5) && !filter.contains(">=") && !filter.contains("==") && !filter.contains("+ $x");
            if raw {
                inv.from = Some("raw".into());
            }
            let total = 1 + rng.usize(5);
            let delivered = rng.usize(total + 1);
            let sep = *rng.pick(&["\n", "\n", " \n", "\n\n"]);
            let bytes: Vec<u8> = (0..delivered).flat_map(|j| format!("{j}{sep}").into_bytes()).collect();
            let mut stdin = Stdin { bytes: Blob(bytes), end: StdinEnd::Stall, ..Default::default() };
            if rng.chance(1, 2) {
                stdin.script = vec![StdinStep::Chunk(1 + rng.usize(4) as u32)];
                stdin.cycle = true;
            }
            let argv = c17::render_argv(&inv, &mut rng);
            let case = c17::Case {
                inv,
                argv,
                files: vec![FileSpec::dir(c17::CWD)],
                stdin,
                faults: vec![],
                stratum: "stall".into(),
                missing: None,
                usage_error: None,
            };
            let pred = case.predict()?;
            let h = wk.run(&case.world())?;
            let mut t = Tally::default();
            t.add("process_runs");
            match (&pred.end, &h.exit) {
                (End::Pending, Exit::Stalled) => t.add("reach:process:both_wait_for_more_input"),
                (End::Done, Exit::Exited(_)) => t.add("reach:process:result_from_the_delivered_prefix"),
                _ => {}
            }
            let key = format!("proc|{filter}|{delivered}/{total}|{:?}", h.exit);
            let viol = c17::judge(&case, &pred, &h).map(|(class, detail)| Violation {
                property: ID.into(),
                class: "R5".into(),
                detail: format!(
                    "`jaq {}` with {delivered} value(s) delivered on standard input and the producer pausing: {detail} [C17 class {class}]",
                    case.argv.join(" ")
                ),
                fingerprint: {
                    let mut m = BTreeMap::new();
                    m.insert("filter".to_string(), filter.to_string());
                    m
                },
                case: json!({"process_case": case}),
                seed: cfg.seed,
                run: 30_000_000 + i,
                minimised_steps: 0,
            });
            let sample = (i < 2).then(|| json!({"stratum": "process", "argv": case.argv, "stdin_delivered": String::from_utf8_lossy(&case.stdin.bytes.0), "then": "the producer pauses (stream stays open)", "exit": format!("{:?}", h.exit), "stdout": String::from_utf8_lossy(&h.stdout.0)}));
            t.merge(&wk.tally);
            Ok((viol, t, key, sample))
        },
    );
    let mut out = Vec::new();
    for r in res {
        let (v, t, k, s) = r?;
        tally.merge(&t);
        keys.insert(k);
        out.extend(v);
        samples.extend(s);
    }
    Ok(out)
}

/// The violation reported for a case whose worker process crashed or hung.
fn crash_violation(cfg: &Cfg, i: u64, how: &str) -> Violation {
    let mut rng = Rng::for_run(cfg.seed, ID, i);
    let case = gen_case(&mut rng);
    Violation {
        property: ID.into(),
        class: "R3".into(),
        detail: format!(
            "running `{}` and pulling its outputs one by one {how}: the definitional trace needs only finite work per output",
            case.term.text()
        ),
        fingerprint: fingerprint(&case, how),
        case: serde_json::to_value(&case).unwrap(),
        seed: cfg.seed,
        run: i,
        minimised_steps: 0,
    }
}

pub fn check(cfg: &Cfg) -> Result<i32, Harness> {
    let started = std::time::Instant::now();
    let n = cfg.n(40_000, 1_500_000) as u64;
    let results = crate::par::proc_map(cfg, ID, n, 45)?;
    let mut tally = Tally::default();
    let mut shapes = BTreeSet::new();
    let mut violations = Vec::new();
    let mut samples = Vec::new();
    let mut evaluations = 0u64;
    for (i, r) in results.into_iter().enumerate() {
        evaluations += 1;
        match r {
            crate::par::CaseEnd::Done(o) => {
                record_digest(i as u64, o.digest);
                tally.merge(&Tally(o.tally));
                shapes.extend(o.keys);
                violations.extend(o.viol);
                samples.extend(o.sample);
            }
            crate::par::CaseEnd::Crashed(how) => {
                tally.add("worker_crashed");
                violations.push(crash_violation(cfg, i as u64, &format!("crashed the process ({how}: stack or memory exhausted)")));
            }
            crate::par::CaseEnd::Skipped => {
                evaluations -= 1;
                tally.add("skipped_after_abort");
            }
            crate::par::CaseEnd::Hung => {
                tally.add("worker_hung");
                violations.push(crash_violation(cfg, i as u64, "did not come back within 45 s"));
            }
        }
    }
    let proc_viol = process_stratum(cfg, &mut tally, &mut shapes, &mut samples)?;
    evaluations += tally.get("process_runs");
    violations.extend(proc_viol);
    let inconclusive = tally.get("inconclusive");
    // (violations are reported first: a tree that breaks the property usually disagrees on values too)
    if violations.is_empty() && inconclusive * 50 > evaluations {
        return Err(Harness(format!(
            "{inconclusive} of {evaluations} cases inconclusive (model and tree disagree on output values): {:?}",
            tally.0.iter().filter(|(k, _)| k.starts_with("inconclusive:")).collect::<Vec<_>>()
        )));
    }
    let pick = |p: &str| -> BTreeMap<String, u64> {
        tally.0.iter().filter(|(k, _)| k.starts_with(p)).map(|(k, v)| (k[p.len()..].to_string(), *v)).collect()
    };
    let ev = Evidence {
        property: ID,
        level: "exploration",
        coverage: json!({
            "evaluations": evaluations,
            "distinct_nontrivial": shapes.len(),
            "rule": "each case is a generated stream term (comma, pipe, bindings, if, //, try/catch, ?, label/break, first, limit, skip, nth, isempty, any, all, foreach/reduce over finite and endless sources incl. `inputs`, array collection, recursive definitions, repeat, recurse, while, until, range with zero step) whose sub-terms carry observable effects: probe(i) markers, bombs, errors, `input`/`inputs` consumption, endless probed loops; it is compiled by the tree's compiler with two extra natives (probe, bomb), run by the tree's interpreter on a logged input stream (ending, failing or endless) and consumed by a consumer that pulls exactly k outputs, for every k up to min(#outputs, 10), plus one pull-k-then-drop run. Oracle: the multiset of effects logged when output k is delivered is contained in the effects the definitional left-to-right trace (a separate lazy evaluator, model/lazy.rs) places before output k; no Bomb, no Fuel; dropping logs nothing. A case whose output VALUES differ from the model is inconclusive (C01 is not claimed) and skipped. distinct = distinct term shapes (constants erased) among non-trivial cases; non-trivial = at least one effect of the definitional trace lies after an output at which the stream was cut. Also generated: value constructors over streams (string interpolation, object construction, arithmetic and comparison with a stream operand), labels bound inside the body of recurse/while/until with a break to a label outside the recursion, stream-valued arguments of natives (limit((Z); F), range((Z); n)), last(F). Programs that index with a value that is no integer are not modelled and counted inconclusive.",
            "cuts_checked": tally.get("cuts_checked"),
            "inconclusive": inconclusive,
            "inconclusive_reasons": pick("inconclusive:"),
            "constructs_exercised": pick("reach:"),
            "process_stratum": {"runs": tally.get("process_runs"), "what": "the real binary under simos with prefix consumers of standard input (first(inputs), limit, input, isempty, nth, label/break, foreach, `., halt`) and a producer that pauses after k complete values while keeping the stream open: whatever the delivered prefix determines must be on stdout and a determined outcome must have ended the run (judged by the command-line reference model; class R5)"},
            "faults_injected": {"input stream fails after j values": "InputEnd::Fail", "consumer cancels after k outputs": "every k", "endless input stream": "InputEnd::Endless"},
            "real_vs_stub": {"real": ["jaq-core compiler and interpreter, jaq-std/jaq-json natives and definitions, jaq-std input/inputs, RcIter"], "simulated": ["the consumer (pulls k, drops)", "the input stream", "probe/bomb natives"], "model": ["model/lazy.rs: lazy definitional evaluator of the term language"]},
            "samples": samples,
        }),
        assumptions: vec![
            "effects are placed only in stream positions (not in index/key positions of paths or object construction, where evaluation order is C01's subject)".into(),
            "containment, not equality: evaluating less than the definition is no laziness violation".into(),
        ],
    };
    finish(cfg, ev, violations, started)
}

fn term_tags(t: &T) -> BTreeSet<&'static str> {
    fn go(t: &T, s: &mut BTreeSet<&'static str>) {
        s.insert(match t {
            T::Mk(_) | T::Lit(_) | T::Dot | T::PDot | T::Inc | T::Empty | T::Var(_) | T::AddVar(_) => "leaf",
            T::Bomb => "bomb",
            T::Err => "error",
            T::Halt => "halt",
            T::Input => "input",
            T::Inputs => "inputs",
            T::Comma(..) => "comma",
            T::Pipe(..) => "pipe",
            T::As(..) => "as",
            T::If(..) => "if",
            T::Alt(..) => "alt",
            T::Try(..) | T::TryQ(_) => "try",
            T::Label(..) | T::Break(_) => "label",
            T::First(_) => "first",
            T::Limit(..) => "limit",
            T::Skip(..) => "skip",
            T::Nth(..) => "nth",
            T::IsEmpty(_) => "isempty",
            T::Any(..) | T::All(..) => "any_all",
            T::Foreach(..) => "foreach",
            T::Reduce(..) => "reduce",
            T::Arr(_) => "array",
            T::Rec(_) => "recursive_def",
            T::Repeat(_) => "repeat",
            T::Recurse(_) => "recurse",
            T::While(..) => "while",
            T::Until(..) => "until",
            T::Range(..) => "range",
            T::SliceTo(..) | T::IndexAt(_) => "path_position",
            T::PathOf(_) => "path_mode",
            T::Idx(_) | T::Iter | T::Pass(_) => "leaf",
            T::IdxZ(_) => "path_position",
            T::Interp(_) | T::ObjVal(_) | T::AddR(..) | T::AddL(..) | T::EqLit(..) => "value_constructor",
            T::LimitZ(..) | T::RangeZ(..) => "stream_valued_argument",
            T::Last(_) => "last",
        });
        match t {
            T::Comma(a, b) | T::Pipe(a, b) | T::Alt(a, b) | T::Try(a, b) | T::As(a, _, b) | T::If(_, a, b) => {
                go(a, s);
                go(b, s)
            }
            T::TryQ(a) | T::Label(_, a) | T::First(a) | T::Limit(_, a) | T::Skip(_, a) | T::Nth(_, a) | T::IsEmpty(a)
            | T::Any(a, _) | T::All(a, _) | T::Arr(a) | T::Rec(a) | T::Repeat(a) | T::Recurse(a) | T::While(_, a)
            | T::Until(_, a) | T::SliceTo(_, a) | T::IndexAt(a) | T::PathOf(a) | T::IdxZ(a) | T::Interp(a) | T::ObjVal(a)
            | T::AddR(a, _) | T::AddL(_, a) | T::EqLit(a, _) | T::RangeZ(a, _) | T::Last(a) => go(a, s),
            T::LimitZ(z, a) => {
                go(z, s);
                go(a, s)
            }
            T::Foreach(a, _, _, u, e) => {
                go(a, s);
                go(u, s);
                if let Some(e) = e {
                    go(e, s)
                }
            }
            T::Reduce(a, _, _, u) => {
                go(a, s);
                go(u, s)
            }
            _ => {}
        }
    }
    let mut s = BTreeSet::new();
    go(t, &mut s);
    s
}

/// runs in a child process (see main.rs): a crash or hang of the child is the violation
pub fn replay(cfg: &Cfg, v: &Violation) -> Result<Option<(String, String)>, Harness> {
    if let Some(pc) = v.case.get("process_case") {
        let case: super::c17::Case = serde_json::from_value(pc.clone())?;
        let mut wk = crate::worker::Worker::new(cfg, 0)?;
        let (viol, _, _) = super::c17::eval(&case, &mut wk)?;
        return Ok(viol.map(|(c, d)| ("R5".to_string(), format!("{d} [C17 class {c}]"))));
    }
    let case: Case = serde_json::from_value(v.case.clone())?;
    Ok(match judge(&case) {
        Verdict::Violation(c, d) => Some((c, d)),
        _ => None,
    })
}
