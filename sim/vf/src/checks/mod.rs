pub mod c18;
pub mod c17;
pub mod c16;
pub mod c06;
pub mod c03;
pub mod c05;
pub mod c19;
pub mod c17lib;
