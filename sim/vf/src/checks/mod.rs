pub mod c18;
