pub mod c18;
pub mod c17;
