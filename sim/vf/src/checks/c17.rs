//! C17 — the command line prints each output once, in order, and reports the true outcome.
//! Engines: simos (real binary vs. reference model under I/O schedules and faults).
use crate::common::*;
use crate::model::cli::{self, End, Invocation, NamedKind, Prediction, Stderr, StdinMode};
use crate::par::par_map;
use crate::rng::Rng;
use crate::worker::Worker;
use serde::{Deserialize, Serialize};
use serde_json::json;
use simos::*;
use std::collections::{BTreeMap, BTreeSet};

pub const ID: &str = "C17";

#[derive(Clone, Debug, Serialize, Deserialize)]
pub struct Case {
    pub inv: Invocation,
    pub argv: Vec<String>,
    pub files: Vec<FileSpec>,
    pub stdin: Stdin,
    pub faults: Vec<Fault>,
    /// "plain" | "benign" | "stall" | "readfail" | "writefail" | "stderrfail" | "openfail" | "usage"
    pub stratum: String,
    /// for `openfail`: the file (as written) whose open fails
    #[serde(default)]
    pub missing: Option<String>,
    /// for `usage`: the command line is malformed (what was done to it)
    #[serde(default)]
    pub usage_error: Option<String>,
}

pub const CWD: &str = "w";

struct CaseFs<'a>(&'a Case);

pub fn resolve(path: &str) -> String {
    if let Some(p) = path.strip_prefix("/@ROOT/") {
        p.to_string()
    } else {
        let joined = format!("/{CWD}/{path}");
        simos::tracer::lex_norm(&joined)[1..].to_string()
    }
}

impl cli::Fs for CaseFs<'_> {
    fn read(&self, path: &str) -> Option<Vec<u8>> {
        if self.0.missing.as_deref() == Some(path) {
            return None;
        }
        let p = resolve(path);
        self.0
            .files
            .iter()
            .find(|f| f.path == p && matches!(f.kind, Kind::File | Kind::Fifo))
            .map(|f| f.bytes.0.clone())
    }
}

impl Case {
    pub fn world(&self) -> World {
        World {
            files: self.files.clone(),
            cwd: CWD.into(),
            env: self.inv.env.clone(),
            argv: self.argv.clone(),
            stdin: self.stdin.clone(),
            faults: self.faults.clone(),
            mount_boundary: false,
            entropy: 7,
            umask: None,
            stdout_tty: self.inv.tty,
        }
    }
    pub fn predict(&self) -> Result<Prediction, Harness> {
        let mode = match self.stdin.end {
            StdinEnd::Eof => StdinMode::Eof,
            StdinEnd::Stall => StdinMode::Stall,
            StdinEnd::Fail(_) => StdinMode::Fail,
        };
        let stdin = cli::Stdin {
            bytes: &self.stdin.bytes.0,
            mode,
        };
        if let Some(why) = &self.usage_error {
            // a malformed command line is a usage error whatever else it says: status 2,
            // a diagnostic, no output
            return Ok(Prediction {
                chunks: vec![],
                exits: vec![2],
                stderr: Stderr::NonEmpty,
                end: End::Done,
                events: vec![],
                why: format!("usage error: {why}"),
                stderr_by_filter: false,
            });
        }
        let fs = CaseFs(self);
        let inv = self.inv.clone();
        std::panic::catch_unwind(std::panic::AssertUnwindSafe(|| cli::predict(&inv, &fs, &stdin)))
            .map_err(|_| Harness("model panicked (interpreter panic inside the harness)".into()))
    }
}

// -----------------------------------------------------------------------------------------
// judging

fn lossy(b: &[u8]) -> String {
    let s = String::from_utf8_lossy(b);
    if s.len() > 300 {
        format!("{}…({} bytes)", &s[..s.char_indices().nth(200).map_or(s.len(), |x| x.0)], b.len())
    } else {
        s.into_owned()
    }
}

pub fn judge(case: &Case, pred: &Prediction, h: &History) -> Option<(String, String)> {
    let v = |c: &str, d: String| Some((c.to_string(), d));
    let want = pred.stdout();
    let got = &h.stdout.0;
    let write_fault = h
        .fired
        .iter()
        .any(|f| f.contains("FAIL(") && f.ends_with("stdout"));
    let stderr_fault = h
        .fired
        .iter()
        .any(|f| f.contains("FAIL(") && f.ends_with("stderr"));
    let partial_last = pred.why.starts_with("@partial-last");
    if pred.why.starts_with("@inconclusive") {
        return None;
    }
    // CBOR carries string lengths: a value that mentions the sandbox path (input_filename with an
    // absolute argument) is encoded differently for the real path and for its stand-in
    if case.inv.to.as_deref() == Some("cbor") && want.windows(ROOT_TOKEN.len()).any(|w| w == ROOT_TOKEN.as_bytes()) {
        return None;
    }
    match (&pred.end, &h.exit) {
        (_, Exit::Hung) => v("I0", "run hung".into()),
        (_, Exit::Signaled(s)) => v("I0", format!("process died with signal {s}")),
        (_, Exit::Killed(_)) => None,
        (End::Pending, Exit::Stalled) => {
            if *got == want {
                None
            } else if want.starts_with(got) {
                v(
                    "I3",
                    format!(
                        "blocked on stdin while {} bytes of output derivable from the delivered input were not yet written (have {:?}, model {:?})",
                        want.len() - got.len(),
                        lossy(got),
                        lossy(&want)
                    ),
                )
            } else {
                v(
                    "I1",
                    format!("stdout at the stall differs: have {:?}, model {:?}", lossy(got), lossy(&want)),
                )
            }
        }
        (End::Pending, Exit::Exited(c)) => v(
            "I4",
            format!(
                "terminated with status {c} although the model needs more input (stdout {:?}, stderr {:?})",
                lossy(got),
                lossy(&h.stderr.0)
            ),
        ),
        (End::Done, Exit::Stalled) => v(
            "I3",
            format!(
                "blocked on stdin although the outcome ({}; exit {:?}) needs no more input; stdout so far {:?}",
                pred.why,
                pred.exits,
                lossy(got)
            ),
        ),
        (End::Done, Exit::Exited(c)) => {
            if write_fault {
                if !want.starts_with(got) {
                    return v(
                        "I1",
                        format!(
                            "after a failed write, stdout is not a prefix of the model's: have {:?}, model {:?}",
                            lossy(got),
                            lossy(&want)
                        ),
                    );
                }
                if *c != 2 && !(pred.exits.contains(c) && *c != 0 && *got == want) {
                    return v(
                        "I2",
                        format!("a write to stdout failed ({}) but the exit status is {c}, not 2", h.fired.join(";")),
                    );
                }
                if !stderr_fault && h.stderr.0.is_empty() {
                    return v("I2", "a write to stdout failed but nothing was reported on stderr".into());
                }
                return None;
            }
            let stdout_ok = if partial_last {
                // the last chunk is the unspecified partial rendering of a value the output
                // format cannot represent
                let n = pred.chunks.len().saturating_sub(1);
                let sure: Vec<u8> = pred.chunks[..n].concat();
                got.starts_with(&sure)
            } else {
                *got == want
            };
            if !stdout_ok {
                let class = if want.starts_with(got) { "I1" } else { "I1" };
                return v(
                    class,
                    format!(
                        "stdout differs from the model ({}): have {:?}, model {:?}",
                        pred.why,
                        lossy(got),
                        lossy(&want)
                    ),
                );
            }
            if !pred.exits.contains(c) {
                return v(
                    "I2",
                    format!(
                        "exit status {c}, model {:?} ({}); stderr {:?}",
                        pred.exits,
                        pred.why,
                        lossy(&h.stderr.0)
                    ),
                );
            }
            if !stderr_fault {
                match pred.stderr {
                    Stderr::Empty if !h.stderr.0.is_empty() => {
                        return v("I2", format!("unexpected diagnostic on stderr: {:?}", lossy(&h.stderr.0)))
                    }
                    Stderr::NonEmpty if h.stderr.0.is_empty() => {
                        return v(
                            "I2",
                            format!("status {c} ({}) but nothing on stderr", pred.why),
                        )
                    }
                    _ => {}
                }
            }
            None
        }
    }
}

// -----------------------------------------------------------------------------------------
// generation

const JSON_POOL: &[&str] = &[
    "0", "1", "2", "3", "\"s\"", "null", "false", "true", "[1,2]", "{\"a\":1,\"b\":[2]}", "1.5",
    "\"x y\"", "{\"b\":2,\"a\":1}", "[]", "{}", "\"\\u00e9\\n\"", "[[0],{\"a\":null}]", "-7",
    "\"\"", "100000000000000000000",
    "{\"z\":{\"y\":1,\"x\":[{\"d\":1,\"c\":2}]},\"a\":{\"k\":null}}",
];

fn render_json(rng: &mut Rng, vals: &[&str]) -> Vec<u8> {
    let mut s = String::new();
    for v in vals {
        s.push_str(v);
        s.push_str(*rng.pick(&["\n", "\n", " ", "\n\n", "\t\n"]));
    }
    s.into_bytes()
}

#[derive(Clone, Debug)]
struct InputDoc {
    fmt: &'static str,
    /// the pieces (one per value), each already carrying its delimiter
    pieces: Vec<Vec<u8>>,
    /// the pieces can be delivered one by one (streaming format)
    streaming: bool,
}

fn gen_input(rng: &mut Rng, fmt: &'static str) -> InputDoc {
    let n = match rng.usize(10) {
        0 => 0,
        1 | 2 => 1,
        3 | 4 => 2,
        5 | 6 => 3,
        7 => 4,
        8 => 5,
        _ => 6,
    };
    let numbers = rng.chance(1, 2);
    let mut pieces = Vec::new();
    match fmt {
        "json" => {
            for i in 0..n {
                let v = if numbers {
                    i.to_string()
                } else {
                    rng.pick(JSON_POOL).to_string()
                };
                let sep = *rng.pick(&["\n", "\n", " ", "\n\n", "\t\n"]);
                pieces.push(format!("{v}{sep}").into_bytes());
            }
        }
        "raw" => {
            for _ in 0..n {
                let l = *rng.pick(&["abc", "", "x y", "1", "\u{fc}n\u{ef}", "tab\there", "{\"a\":1}", "  sp  "]);
                let e = *rng.pick(&["\n", "\n", "\r\n"]);
                pieces.push(format!("{l}{e}").into_bytes());
            }
        }
        "raw0" => {
            for _ in 0..n {
                let l = *rng.pick(&["abc", "", "x\ny", "1", "\u{fc}n\u{ef}", "a b"]);
                pieces.push(format!("{l}\0").into_bytes());
            }
        }
        "csv" => {
            for i in 0..n {
                let row = match rng.usize(4) {
                    0 => format!("a,b,{i}\n"),
                    1 => format!("\"q\"\"x\",{i}\n"),
                    2 => format!("{i}\n"),
                    _ => format!("x y,,{i},\"m,n\"\n"),
                };
                pieces.push(row.into_bytes());
            }
        }
        "tsv" => {
            for i in 0..n {
                let row = match rng.usize(3) {
                    0 => format!("a\tb\t{i}\n"),
                    1 => format!("x\\ty\t{i}\n"),
                    _ => format!("{i}\n"),
                };
                pieces.push(row.into_bytes());
            }
        }
        "cbor" => {
            for i in 0..n {
                let text = if numbers {
                    i.to_string()
                } else {
                    rng.pick(JSON_POOL).to_string()
                };
                let val = jaq_all::fmts::read::json::parse_single(text.as_bytes()).unwrap();
                let mut buf = Vec::new();
                jaq_all::fmts::write::cbor::write(&mut buf, &val).unwrap();
                pieces.push(buf);
            }
        }
        "yaml" => {
            for i in 0..n.max(1) {
                let d = match rng.usize(4) {
                    0 => format!("a: {i}\nb: [1, 2]\n"),
                    1 => "- x\n- y\n".to_string(),
                    2 => format!("{i}\n"),
                    _ => "\"str\"\n".to_string(),
                };
                pieces.push(format!("---\n{d}").into_bytes());
            }
        }
        "xml" => {
            // one root element per document (several are a parse error: kept as a rare case)
            let roots = if rng.chance(1, 6) { 2 } else { 1 };
            for i in 0..roots {
                pieces.push(format!("<a x=\"{i}\">t<b/></a>\n").into_bytes());
            }
        }
        "toml" => {
            pieces.push(b"a = 1\n[t]\nb = \"x\"\n".to_vec());
        }
        _ => unreachable!(),
    }
    InputDoc {
        fmt,
        pieces,
        streaming: matches!(fmt, "json" | "raw" | "raw0" | "csv" | "tsv" | "cbor"),
    }
}

const FILTERS: &[&str] = &[
    ".",
    ".",
    ".a?",
    "., .",
    "empty",
    "[.]",
    "length?",
    "if . == 2 then error(\"e2\") else . end",
    "if . == 0 then error else . end",
    "if . == 1 then halt else . end",
    "if . == 2 then halt(7) else . end",
    "if . == 1 then (\"bye\\n\" | halt_error) else . end",
    "if . == 1 then (\"x\" | halt_error(3)) else . end",
    "., input",
    "input",
    "[., input]",
    "inputs",
    "[inputs]",
    "first(inputs)",
    "limit(2; inputs)",
    "[limit(1; inputs)], .",
    "$x",
    "[$x, $y]",
    "$ARGS",
    "$ARGS.positional",
    "$ENV.FOO",
    "input_filename",
    "[., input_filename]",
    "tojson",
    "error",
    "null",
    "false",
    "\"a\\u0000b\"",
    "{\"a\": .}",
    "[limit(3; repeat(.))]",
    "try error(\"x\") catch .",
    "reduce inputs as $v (0; . + 1)",
    "foreach inputs as $v (0; . + 1)",
    ".[]?",
    "(1, null)",
    "(null, 1)",
    "\"text\"",
    "[., 1] | tostring",
    "{(tostring): [., .]}",
    "$d",
    "$r",
    ".. ",
    "label $out | (., break $out, 9)",
    "if . == 2 then input else . end",
    "first(., error(\"never\"))",
    "try input catch \"none\"",
    "[., (try input catch \"none\")]",
    "[limit(2; inputs)] | length",
    "if . == 1 then ([inputs] | length) else . end",
    "debug",
    "debug(\"msg\") | [.]",
    "., (\"note\\n\" | stderr | empty)",
];

const FORMATS_IN: &[&str] = &[
    "json", "json", "json", "json", "json", "raw", "raw0", "csv", "tsv", "cbor", "yaml", "xml", "toml",
];
const FORMATS_OUT: &[&str] = &["json", "raw", "raw0", "yaml", "cbor", "toml", "xml", "csv", "tsv"];

fn ext_of(fmt: &str, rng: &mut Rng) -> &'static str {
    match fmt {
        "json" => "json",
        "yaml" => *rng.pick(&["yaml", "yml"]),
        "cbor" => "cbor",
        "toml" => "toml",
        "xml" => *rng.pick(&["xml", "xhtml"]),
        "csv" => "csv",
        "tsv" => "tsv",
        _ => "txt",
    }
}

pub fn gen_case(rng: &mut Rng) -> Case {
    let mut inv = Invocation::default();
    let mut files = vec![FileSpec::dir(CWD), FileSpec::dir("w/d")];
    inv.env = vec![
        ("HOME".into(), "/@ROOT/home".into()),
        ("FOO".into(), "bar baz".into()),
        ("PATH".into(), "/usr/bin".into()),
    ];
    if rng.chance(1, 10) {
        inv.env.push(("NO_COLOR".into(), "1".into()));
    }
    // ---- inputs
    let use_files = rng.chance(2, 5);
    let mut stdin_doc: Option<InputDoc> = None;
    let fmt_in = *rng.pick(FORMATS_IN);
    if use_files {
        let nf = 1 + rng.usize(3);
        let use_from = matches!(fmt_in, "raw" | "raw0") || rng.chance(1, 3);
        if use_from {
            inv.from = Some(fmt_in.to_string());
        }
        for i in 0..nf {
            // with --from every file is read in that format whatever its name says;
            // without it the extension decides, and no/unknown extension means JSON
            let (fmt, name): (&'static str, String) = if use_from {
                let name = match rng.usize(4) {
                    0 => format!("in{i}"),
                    1 => format!("in{i}.dat"),
                    2 => format!("in{i}.{}", ext_of(*rng.pick(FORMATS_IN), rng)),
                    _ => format!(".hidden{i}"),
                };
                (fmt_in, name)
            } else {
                let f = if rng.chance(3, 4) { fmt_in } else { *rng.pick(FORMATS_IN) };
                let f = if matches!(f, "raw" | "raw0") { "json" } else { f };
                if f == "json" && rng.chance(1, 3) {
                    let name = match rng.usize(3) {
                        0 => format!("in{i}"),
                        1 => format!("in{i}.dat"),
                        _ => format!(".json{i}"),
                    };
                    (f, name)
                } else {
                    (f, format!("in{i}.{}", ext_of(f, rng)))
                }
            };
            let doc = gen_input(rng, fmt);
            let (arg, path) = match rng.usize(4) {
                0 => (format!("d/{name}"), format!("w/d/{name}")),
                1 => (format!("/@ROOT/w/{name}"), format!("w/{name}")),
                2 => (format!("./{name}"), format!("w/{name}")),
                _ => (name.clone(), format!("w/{name}")),
            };
            let mut bytes = doc.pieces.concat();
            if rng.chance(1, 8) && fmt == "json" {
                bytes.extend_from_slice(*rng.pick(&[&b"{\"a\":"[..], b"}", b"[1,", b"tru"]));
            }
            // one input file in twelve is a named pipe (`<(cmd)`, `mkfifo`): no size, no mmap, no
            // seek - the values must be the same as from a regular file with these bytes
            if rng.chance(1, 12) && bytes.len() < 60_000 {
                files.push(FileSpec::fifo(path, bytes));
            } else {
                files.push(FileSpec::file(path, bytes, 0o644));
            }
            inv.files.push(arg);
        }
    } else {
        let doc = gen_input(rng, fmt_in);
        if fmt_in != "json" || rng.chance(1, 10) {
            inv.from = Some(fmt_in.to_string());
        }
        stdin_doc = Some(doc);
    }
    // ---- options (swarm: each run enables a random subset)
    inv.null_input = rng.chance(1, 5);
    inv.slurp = rng.chance(1, 6);
    match rng.usize(12) {
        0 | 1 => inv.to = Some("raw".into()),
        2 => inv.to = Some("raw0".into()),
        3 => inv.to = Some(rng.pick(FORMATS_OUT).to_string()),
        4 => inv.to = Some("yaml".into()),
        5 => inv.to = Some("json".into()),
        _ => {}
    }
    inv.join = rng.chance(1, 6);
    inv.compact = rng.chance(1, 3);
    inv.tab = rng.chance(1, 8);
    if rng.chance(1, 6) {
        inv.indent = Some(rng.usize(5));
    }
    inv.sort_keys = rng.chance(1, 5);
    inv.color = rng.chance(1, 8);
    inv.mono = rng.chance(1, 10);
    if inv.color && rng.chance(1, 3) {
        inv.env.push(("JQ_COLORS".into(), "1;31:0;32::4".into()));
    }
    inv.exit_status = rng.chance(1, 4);
    // one run in eight writes to a terminal: colours by default, unless NO_COLOR / -M
    inv.tty = rng.chance(1, 8);
    if inv.tty && rng.chance(1, 3) {
        inv.env.push(("JQ_COLORS".into(), "0;33:1;35::4:1".into()));
    }
    // ---- filter
    let filter = rng.pick(FILTERS).to_string();
    let mut need = |name: &str, kind: NamedKind, value: String| {
        if filter.contains(&format!("${name}")) {
            inv.named.push((kind, name.to_string(), value));
        }
    };
    need("x", NamedKind::Arg, "val x".into());
    let yval = if rng.chance(1, 10) { "{\"k\": [1, 2}" } else { "{\"k\": [1, 2]}" };
    need("y", NamedKind::ArgJson, yval.into());
    if filter.contains("$d") {
        if rng.chance(1, 8) {
            files.push(FileSpec::fifo("w/data.json", "1 [2] {\"a\":3}\n"));
        } else {
            files.push(FileSpec::file("w/data.json", "1 [2] {\"a\":3}\n", 0o644));
        }
        files.push(FileSpec::file("w/broken.json", "1 [2 {\"a\"\n", 0o644));
        let name = match rng.usize(10) {
            0 => "no-such-data.json",
            1 => "broken.json",
            _ => "data.json",
        };
        inv.named.push((NamedKind::SlurpFile, "d".into(), name.into()));
    }
    if filter.contains("$r") {
        if rng.chance(1, 8) {
            files.push(FileSpec::fifo("w/raw.txt", "line1\nline2 \u{e9}\n"));
        } else {
            files.push(FileSpec::file("w/raw.txt", "line1\nline2 \u{e9}\n", 0o644));
        }
        // one time in eight the named file does not exist: an I/O error, status 2
        let name = if rng.chance(1, 8) { "no-such-raw.txt" } else { "raw.txt" };
        inv.named.push((NamedKind::RawFile, "r".into(), name.into()));
    }
    if filter.contains("$ARGS") || rng.chance(1, 10) {
        if rng.chance(2, 3) {
            inv.named.push((NamedKind::Arg, "n1".into(), "v1".into()));
        }
        if rng.chance(1, 2) {
            inv.named
                .push((NamedKind::ArgJson, "n2".into(), "[true]".into()));
        }
        if rng.chance(1, 2) {
            inv.named.push((NamedKind::Arg, "n0".into(), "".into()));
        }
        if rng.chance(2, 3) {
            inv.positional = vec!["p1".into(), "p 2".into()];
        }
    }
    if rng.chance(1, 12) {
        files.push(FileSpec::file("w/prog.jq", format!("{filter}\n"), 0o644));
        inv.filter_file = Some("prog.jq".into());
    } else if filter == "." && rng.chance(1, 3) && inv.files.is_empty() && inv.positional.is_empty() {
        inv.filter = None; // no filter: identity
    } else {
        inv.filter = Some(filter);
    }
    let argv = render_argv(&inv, rng);
    let stdin_bytes = stdin_doc.as_ref().map(|d| d.pieces.concat()).unwrap_or_default();
    let mut case = Case {
        inv,
        argv,
        files,
        stdin: Stdin {
            bytes: Blob(stdin_bytes),
            ..Default::default()
        },
        faults: vec![],
        stratum: "plain".into(),
        missing: None,
        usage_error: None,
    };
    // ---- stratum
    let streaming_stdin = stdin_doc.as_ref().is_some_and(|d| d.streaming) && !case.inv.slurp;
    match rng.usize(20) {
        0..=4 => {}
        5..=9 => {
            case.stratum = "benign".into();
            match rng.usize(5) {
                0 => {
                    case.stdin.script = vec![StdinStep::Chunk(1)];
                    case.stdin.cycle = true;
                }
                1 => {
                    case.stdin.script = (0..6)
                        .map(|_| StdinStep::Chunk(1 + rng.usize(7) as u32))
                        .collect();
                    case.stdin.cycle = true;
                }
                2 => {
                    case.stdin.script = vec![StdinStep::Eintr, StdinStep::Chunk(3), StdinStep::Chunk(1), StdinStep::Eintr];
                    case.stdin.cycle = true;
                }
                3 => {
                    // piece-aligned delivery
                    if let Some(d) = &stdin_doc {
                        case.stdin.script =
                            d.pieces.iter().map(|p| StdinStep::Chunk(p.len().max(1) as u32)).collect();
                    }
                }
                _ => {}
            }
            // short writes / EINTR on stdout
            match rng.usize(4) {
                0 => case.faults.push(Fault {
                    at: At::Nth { class: Class::Write, obj: Obj::Stdout, n: 0, sticky: true },
                    kind: FaultKind::Short(1),
                    sig: None,
                }),
                1 => case.faults.push(Fault {
                    at: At::Nth { class: Class::Write, obj: Obj::Stdout, n: rng.usize(3) as u32, sticky: false },
                    kind: FaultKind::Eintr,
                    sig: None,
                }),
                2 => case.faults.push(Fault {
                    at: At::Nth { class: Class::Write, obj: Obj::Stdout, n: rng.usize(4) as u32, sticky: false },
                    kind: FaultKind::Short(2),
                    sig: None,
                }),
                _ => {}
            }
            // files: force the fallback read path and chunk it
            if !case.inv.files.is_empty() && rng.chance(1, 2) {
                case.faults.push(Fault {
                    at: At::Nth { class: Class::Map, obj: Obj::AnyFile, n: 0, sticky: true },
                    kind: FaultKind::Fail(libc::ENODEV),
                    sig: None,
                });
                if rng.chance(1, 2) {
                    case.faults.push(Fault {
                        at: At::Nth { class: Class::Read, obj: Obj::AnyFile, n: 0, sticky: true },
                        kind: FaultKind::Short(3),
                        sig: None,
                    });
                }
            }
        }
        10..=12 if streaming_stdin => {
            // the data stops arriving after k complete values
            case.stratum = "stall".into();
            let d = stdin_doc.as_ref().unwrap();
            let k = rng.usize(d.pieces.len() + 1);
            case.stdin.bytes = Blob(d.pieces[..k].concat());
            case.stdin.end = StdinEnd::Stall;
            if rng.chance(1, 2) {
                case.stdin.script = vec![StdinStep::Chunk(1 + rng.usize(5) as u32)];
                case.stdin.cycle = true;
            }
        }
        13 | 14 if stdin_doc.is_some() => {
            case.stratum = "readfail".into();
            let d = stdin_doc.as_ref().unwrap();
            let k = rng.usize(d.pieces.len() + 1);
            case.stdin.bytes = Blob(d.pieces[..k].concat());
            case.stdin.end = StdinEnd::Fail(*rng.pick(&[libc::EIO, libc::EISDIR]));
        }
        15 | 16 => {
            case.stratum = "writefail".into();
            case.faults.push(Fault {
                at: At::Nth { class: Class::Write, obj: Obj::Stdout, n: rng.usize(4) as u32, sticky: rng.chance(1, 2) },
                kind: FaultKind::Fail(*rng.pick(&[libc::ENOSPC, libc::EIO, libc::EPIPE])),
                sig: None,
            });
        }
        17 => {
            case.stratum = "stderrfail".into();
            case.faults.push(Fault {
                at: At::Nth { class: Class::Write, obj: Obj::Stderr, n: 0, sticky: true },
                kind: FaultKind::Fail(libc::ENOSPC),
                sig: None,
            });
        }
        18 if !case.inv.files.is_empty() => {
            case.stratum = "openfail".into();
            let i = rng.usize(case.inv.files.len());
            let arg = case.inv.files[i].clone();
            case.faults.push(Fault {
                at: At::Nth { class: Class::Open, obj: Obj::Path(resolve(&arg)), n: 0, sticky: true },
                kind: FaultKind::Fail(*rng.pick(&[libc::ENOENT, libc::EACCES])),
                sig: None,
            });
            case.missing = Some(arg);
        }
        19 if rng.chance(1, 2) => {
            // options are recognised wherever they stand (except after `--`), so a malformed one in
            // front spoils the whole command line
            case.stratum = "usage".into();
            let (bad, why): (Vec<&str>, &str) = match rng.usize(9) {
                0 => (vec!["--frobnicate"], "unknown long flag"),
                1 => (vec!["-Z"], "unknown short flag"),
                2 => (vec!["-nZc"], "unknown short flag inside a cluster"),
                3 => (vec!["--indent", "many"], "--indent expects an integer"),
                4 => (vec!["--from", "nonsense"], "--from expects a data format"),
                5 => (vec!["--to", "jsonl"], "--to expects a data format"),
                6 => (vec!["--to"], "--to without a value (takes the next argument as format)"),
                7 => (vec!["--indent", "-1"], "--indent expects a non-negative integer"),
                _ => (vec!["--arg", "onlyname"], "--arg expects a key and a value"),
            };
            let single = bad.len() == 1 && bad[0] != "--to";
            if bad == ["--arg", "onlyname"] {
                // a key without a value only when nothing follows
                case.argv.extend(bad.iter().map(|s| s.to_string()));
                if case.argv.iter().any(|a| a == "--") {
                    case.stratum = "plain".into();
                    case.argv.truncate(case.argv.len() - 2);
                } else {
                    case.usage_error = Some(why.into());
                }
            } else if single || bad.len() == 2 || bad[0] == "--to" {
                let mut argv: Vec<String> = bad.iter().map(|s| s.to_string()).collect();
                argv.extend(case.argv.iter().cloned());
                // `--to` swallows the next argument as its value: a usage error unless that
                // argument happens to be a format name
                let next_is_format = bad == ["--to"] && case.argv.first().is_some_and(|a| cli::parse_format(a).is_some());
                if next_is_format {
                    case.stratum = "plain".into();
                } else {
                    case.argv = argv;
                    case.usage_error = Some(why.into());
                }
            }
        }
        _ => {}
    }
    case
}

/// Render the structured invocation in one of its documented spellings.
pub fn render_argv(inv: &Invocation, rng: &mut Rng) -> Vec<String> {
    let mut shorts: Vec<char> = Vec::new();
    let mut groups: Vec<Vec<String>> = Vec::new();
    let mut flag = |short: Option<char>, long: &str, rng: &mut Rng, groups: &mut Vec<Vec<String>>| {
        match short {
            Some(c) if rng.chance(2, 3) => shorts.push(c),
            _ => groups.push(vec![format!("--{long}")]),
        }
    };
    if inv.null_input {
        flag(Some('n'), "null-input", rng, &mut groups);
    }
    if inv.slurp {
        flag(Some('s'), "slurp", rng, &mut groups);
    }
    match inv.from.as_deref() {
        Some("raw") => match rng.usize(3) {
            0 => groups.push(vec!["--from".into(), "raw".into()]),
            _ => flag(Some('R'), "raw-input", rng, &mut groups),
        },
        Some("raw0") => match rng.usize(2) {
            0 => groups.push(vec!["--from".into(), "raw0".into()]),
            _ => groups.push(vec!["--raw-input0".into()]),
        },
        Some(f) => groups.push(vec!["--from".into(), f.into()]),
        None => {}
    }
    match inv.to.as_deref() {
        Some("raw") => match rng.usize(3) {
            0 => groups.push(vec!["--to".into(), "raw".into()]),
            _ => flag(Some('r'), "raw-output", rng, &mut groups),
        },
        Some("raw0") => match rng.usize(2) {
            0 => groups.push(vec!["--to".into(), "raw0".into()]),
            _ => groups.push(vec!["--raw-output0".into()]),
        },
        Some(f) => groups.push(vec!["--to".into(), f.into()]),
        None => {}
    }
    if inv.join {
        flag(Some('j'), "join-output", rng, &mut groups);
    }
    if inv.compact {
        flag(Some('c'), "compact-output", rng, &mut groups);
    }
    if inv.tab {
        groups.push(vec!["--tab".into()]);
    }
    if let Some(n) = inv.indent {
        groups.push(vec!["--indent".into(), n.to_string()]);
    }
    if inv.sort_keys {
        flag(Some('S'), "sort-keys", rng, &mut groups);
    }
    if inv.color {
        flag(Some('C'), "color-output", rng, &mut groups);
    }
    if inv.mono {
        flag(Some('M'), "monochrome-output", rng, &mut groups);
    }
    if inv.exit_status {
        flag(Some('e'), "exit-status", rng, &mut groups);
    }
    // `-f` says how the *next* positional is to be read, so it is rendered in front
    let from_file_flag: Option<String> = inv.filter_file.as_ref().map(|_| {
        if rng.chance(1, 2) { "-f".to_string() } else { "--from-file".to_string() }
    });
    for (k, name, value) in &inv.named {
        let opt = match k {
            NamedKind::Arg => "--arg",
            NamedKind::ArgJson => "--argjson",
            NamedKind::RawFile => "--rawfile",
            NamedKind::SlurpFile => "--slurpfile",
        };
        groups.push(vec![opt.into(), name.clone(), value.clone()]);
    }
    // cluster the short flags
    rng.shuffle(&mut shorts);
    while !shorts.is_empty() {
        let k = 1 + rng.usize(shorts.len());
        let cluster: String = shorts.drain(..k).collect();
        groups.push(vec![format!("-{cluster}")]);
    }
    // keep --arg groups in their relative order (their order is observable in $ARGS.named);
    // everything else is shuffled around them
    let (named, mut others): (Vec<_>, Vec<_>) = groups
        .into_iter()
        .partition(|g| g.len() == 3);
    rng.shuffle(&mut others);
    let mut seq: Vec<Vec<String>> = Vec::new();
    let mut named = named.into_iter();
    let mut others = others.into_iter();
    loop {
        let take_named = rng.chance(1, 2);
        let g = if take_named { named.next().or_else(|| others.next()) } else { others.next().or_else(|| named.next()) };
        match g {
            Some(g) => seq.push(g),
            None => break,
        }
    }
    // positionals: filter, files
    let mut pos: Vec<String> = Vec::new();
    match (&inv.filter, &inv.filter_file) {
        (_, Some(p)) => pos.push(p.clone()),
        (Some(f), None) => pos.push(f.clone()),
        (None, None) => {}
    }
    pos.extend(inv.files.iter().cloned());
    let mut argv: Vec<String> = Vec::new();
    argv.extend(from_file_flag);
    let use_dashdash = inv.positional.is_empty() && !pos.is_empty() && rng.chance(1, 10);
    if use_dashdash {
        for g in seq {
            argv.extend(g);
        }
        argv.push("--".into());
        argv.extend(pos);
    } else {
        // interleave option groups and positionals, keeping each list's order
        let mut gi = seq.into_iter().peekable();
        let mut pi = pos.into_iter().peekable();
        let front_loaded = rng.chance(2, 3);
        loop {
            let has_g = gi.peek().is_some();
            let has_p = pi.peek().is_some();
            if !has_g && !has_p {
                break;
            }
            let take_g = has_g && (!has_p || front_loaded || rng.chance(1, 2));
            if take_g {
                argv.extend(gi.next().unwrap());
            } else {
                argv.push(pi.next().unwrap());
            }
        }
        if !inv.positional.is_empty() {
            argv.push("--args".into());
            argv.extend(inv.positional.iter().cloned());
        }
    }
    argv
}

// -----------------------------------------------------------------------------------------

fn fingerprint(case: &Case, h: &History) -> BTreeMap<String, String> {
    let mut m = BTreeMap::new();
    m.insert("stratum".into(), case.stratum.clone());
    m.insert(
        "filter".into(),
        case.inv.filter.clone().unwrap_or_else(|| "<none>".into()),
    );
    m.insert(
        "fault".into(),
        h.fired
            .iter()
            .map(|f| f.split_once(' ').map_or(f.as_str(), |x| x.1).to_string())
            .collect::<BTreeSet<_>>()
            .into_iter()
            .collect::<Vec<_>>()
            .join("; "),
    );
    m.insert("exit".into(), format!("{:?}", h.exit));
    m
}

pub fn eval(case: &Case, wk: &mut Worker) -> Result<(Option<(String, String)>, History, Prediction), Harness> {
    let pred = case.predict()?;
    let h = wk.run(&case.world())?;
    let v = judge(case, &pred, &h);
    Ok((v, h, pred))
}

fn shrink_candidates(case: &Case) -> Vec<Case> {
    let mut out = Vec::new();
    if case.usage_error.is_some() {
        return out;
    }
    let rerender = |mut c: Case| {
        let mut rng = Rng::for_run(0, "shrink", 0);
        c.argv = render_argv(&c.inv, &mut rng);
        c
    };
    macro_rules! toggle {
        ($f:ident) => {
            if case.inv.$f {
                let mut c = case.clone();
                c.inv.$f = false;
                out.push(rerender(c));
            }
        };
    }
    toggle!(slurp);
    toggle!(join);
    toggle!(compact);
    toggle!(tab);
    toggle!(sort_keys);
    toggle!(color);
    toggle!(mono);
    toggle!(exit_status);
    if case.inv.indent.is_some() {
        let mut c = case.clone();
        c.inv.indent = None;
        out.push(rerender(c));
    }
    if case.inv.to.is_some() {
        let mut c = case.clone();
        c.inv.to = None;
        out.push(rerender(c));
    }
    for i in 0..case.inv.named.len() {
        let name = &case.inv.named[i].1;
        if !case.inv.filter.as_deref().unwrap_or("").contains(&format!("${name}")) {
            let mut c = case.clone();
            c.inv.named.remove(i);
            out.push(rerender(c));
        }
    }
    if !case.inv.positional.is_empty() {
        let mut c = case.clone();
        c.inv.positional.clear();
        out.push(rerender(c));
    }
    if case.inv.files.len() > 1 {
        for i in 0..case.inv.files.len() {
            if case.missing.as_deref() == Some(case.inv.files[i].as_str()) {
                continue;
            }
            let mut c = case.clone();
            c.inv.files.remove(i);
            out.push(rerender(c));
        }
    }
    if !case.stdin.script.is_empty() {
        let mut c = case.clone();
        c.stdin.script.clear();
        out.push(c);
    }
    for i in 0..case.faults.len() {
        if case.missing.is_some() && matches!(case.faults[i].at, At::Nth { class: Class::Open, .. }) {
            continue; // the model's "missing file" and this fault are one thing
        }
        let mut c = case.clone();
        c.faults.remove(i);
        out.push(c);
    }
    // canonical spelling
    out.push(rerender(case.clone()));
    out
}

pub fn minimise(case: &Case, class: &str, wk: &mut Worker) -> (Case, u32) {
    let mut cur = case.clone();
    let mut steps = 0;
    let mut budget = 40;
    'outer: loop {
        for cand in shrink_candidates(&cur) {
            if budget == 0 {
                break 'outer;
            }
            if serde_json::to_string(&cand).ok() == serde_json::to_string(&cur).ok() {
                continue;
            }
            budget -= 1;
            if let Ok((Some((c, _)), _, _)) = eval(&cand, wk) {
                if c == class {
                    cur = cand;
                    steps += 1;
                    continue 'outer;
                }
            }
        }
        break;
    }
    (cur, steps)
}

pub fn check(cfg: &Cfg) -> Result<i32, Harness> {
    let started = std::time::Instant::now();
    let n = cfg.n(1200, 15_000);
    let idx: Vec<u64> = (0..n as u64).collect();
    struct Out {
        viol: Option<Violation>,
        tally: Tally,
        key: Option<String>,
        sample: Option<serde_json::Value>,
    }
    let results: Vec<Result<Out, Harness>> = par_map(
        &idx,
        cfg.simos_workers,
        |k| Worker::new(cfg, k),
        |wk, _, &i| {
            let wk = wk.as_mut().map_err(|e| Harness(e.0.clone()))?;
            wk.tally = Tally::default();
            let mut rng = Rng::for_run(cfg.seed, ID, i);
            let case = gen_case(&mut rng);
            let (v, h, pred) = eval(&case, wk)?;
            record_digest(i, h.digest());
            let mut tally = Tally::default();
            tally.add(format!("runs:{}", case.stratum));
            if case.inv.tty {
                tally.add("reach:stdout_is_a_terminal");
            }
            if case.files.iter().any(|f| f.kind == Kind::Fifo) {
                tally.add("reach:input_from_named_pipe");
            }
            for f in &h.fired {
                let kind = f.split(' ').nth(1).unwrap_or("?");
                tally.add(format!("fired:{kind}"));
            }
            match (&pred.end, &h.exit) {
                (End::Pending, Exit::Stalled) => {
                    tally.add("reach:stall_agreed");
                    if !pred.chunks.is_empty() {
                        tally.add("reach:stall_with_flushed_output");
                    }
                }
                (End::Done, Exit::Exited(_)) if case.stratum == "stall" => {
                    tally.add("reach:terminated_without_needing_more_input")
                }
                _ => {}
            }
            if pred.exits != vec![0] && !pred.chunks.is_empty() {
                tally.add("reach:error_after_output");
            }
            if pred.why.starts_with("halt") {
                tally.add("reach:halt");
            }
            if pred.why.starts_with("input parse error") {
                tally.add("reach:parse_error_mid_stream");
            }
            if pred.why.starts_with("@inconclusive") {
                tally.add("inconclusive");
            }
            if h.ops.iter().any(|o| o.class == Class::Read && !o.is_std() && o.seq.is_some() && o.ret > 0) {
                tally.add("reach:fallback_read_path");
            }
            let exit_s = format!("{:?}", h.exit);
            let key = format!(
                "{}|{}|{}|{}",
                case.stratum,
                case.inv.filter.as_deref().unwrap_or("-"),
                opt_sig(&case.inv),
                exit_s
            );
            let nontrivial = !h.stdout.0.is_empty() || !matches!(h.exit, Exit::Exited(0));
            let viol = v.map(|(class, detail)| {
                let (m, steps) = minimise(&case, &class, wk);
                Violation {
                    property: ID.into(),
                    class,
                    detail,
                    fingerprint: fingerprint(&case, &h),
                    case: serde_json::to_value(&m).unwrap(),
                    seed: cfg.seed,
                    run: i,
                    minimised_steps: steps,
                }
            });
            let sample = (i < 4).then(|| {
                json!({"argv": case.argv, "stratum": case.stratum, "stdin": String::from_utf8_lossy(&case.stdin.bytes.0),
                       "exit": exit_s, "model_exits": pred.exits, "stdout": String::from_utf8_lossy(&h.stdout.0), "faults_fired": h.fired})
            });
            tally.merge(&wk.tally);
            Ok(Out {
                viol,
                tally,
                key: nontrivial.then_some(key),
                sample,
            })
        },
    );
    let mut tally = Tally::default();
    let mut keys = BTreeSet::new();
    let mut violations = Vec::new();
    let mut samples = Vec::new();
    let mut evaluations = 0u64;
    for r in results {
        let o = r?;
        evaluations += 1;
        tally.merge(&o.tally);
        if let Some(k) = o.key {
            keys.insert(k);
        }
        if let Some(v) = o.viol {
            violations.push(v);
        }
        if let Some(s) = o.sample {
            samples.push(s);
        }
    }
    // library stratum: readers, main loop and writers in-process under delivery schedules
    let n_lib = cfg.n(30_000, 600_000) as u64;
    let lib = crate::par::proc_map(cfg, "C17lib", n_lib, 45)?;
    for (i, r) in lib.into_iter().enumerate() {
        evaluations += 1;
        match r {
            crate::par::CaseEnd::Done(o) => {
                record_digest(20_000_000 + i as u64, o.digest);
                tally.merge(&Tally(o.tally));
                keys.extend(o.keys);
                violations.extend(o.viol);
                samples.extend(o.sample);
            }
            crate::par::CaseEnd::Skipped => evaluations -= 1,
            other => {
                let mut rng = Rng::for_run(cfg.seed, "C17lib", i as u64);
                let case = super::c17lib::gen_case(&mut rng);
                violations.push(Violation {
                    property: ID.into(),
                    class: "I0".into(),
                    detail: format!("library stratum: the worker process {} while running `{}`", match other { crate::par::CaseEnd::Hung => "hung".to_string(), crate::par::CaseEnd::Crashed(h) => format!("crashed ({h})"), _ => String::new() }, case.inv.filter.clone().unwrap_or_default()),
                    fingerprint: BTreeMap::new(),
                    case: json!({"library_case": case}),
                    seed: cfg.seed,
                    run: 20_000_000 + i as u64,
                    minimised_steps: 0,
                });
            }
        }
    }
    let lib_inconclusive = tally.get("lib_inconclusive");
    if violations.is_empty() && lib_inconclusive * 20 > n_lib {
        return Err(Harness(format!("{lib_inconclusive} of {n_lib} library cases inconclusive")));
    }
    let inconclusive = tally.get("inconclusive");
    if violations.is_empty() && inconclusive * 50 > evaluations {
        return Err(Harness(format!(
            "{inconclusive} of {evaluations} cases inconclusive: model and tree moved apart"
        )));
    }
    let pick = |p: &str| -> BTreeMap<String, u64> {
        tally.0.iter().filter(|(k, _)| k.starts_with(p)).map(|(k, v)| (k[p.len()..].to_string(), *v)).collect()
    };
    let ev = Evidence {
        property: ID,
        level: "exploration",
        coverage: json!({
            "evaluations": evaluations,
            "distinct_nontrivial": keys.len(),
            "rule": "PROCESS STRATUM: each run draws (swarm) an option subset in a random documented spelling, a filter from a family with input/inputs/halt/error/limit/label, an input stream (stdin or 1-3 files; JSON/raw/raw0/CSV/TSV/CBOR/YAML/XML/TOML; valid or truncated) and a stratum: plain, benign (stdin chunking 1 byte..piece-aligned, EINTR, short/EINTR writes, mmap failure forcing the fallback read path with short reads: outcome must equal the model exactly), stall (stdin stops after k complete values), readfail, writefail (ENOSPC/EIO/EPIPE on the n-th stdout write), stderrfail, openfail. distinct = distinct (stratum, filter, option signature, exit) tuples; trivial = empty stdout with exit 0. LIBRARY STRATUM: see library_stratum; distinct adds distinct (format, filter, chunk size, -n/-s) tuples of cases with a non-trivial schedule. One input file in twelve, and one --slurpfile/--rawfile argument in eight, is a named pipe whose producer has written its bytes and hangs up at the reader's first read (size 0, no mmap, no seek); the model reads it like a regular file. Filters include debug, debug(msg) and stderr.",
            "runs_by_stratum": pick("runs:"),
            "library_stratum": {"runs_by_input_format": pick("lib_runs:"), "schedule_faults": pick("lib_fault:"), "inconclusive": lib_inconclusive,
                "what": "read::read over a fault-injecting BufRead (chunks of 1..64 bytes, Interrupted, read error at the end), data::run with input/inputs, write::write into a sink with short and interrupted writes; bytes written and outcome class compared with the same reference model; main.rs and cli.rs are not exercised here"},
            "faults_fired": pick("fired:"),
            "reach_probes": pick("reach:"),
            "inconclusive": inconclusive,
            "steps": tally.get("steps"),
            "real_vs_stub": {"real": ["jaq binary from /repo working tree", "libc", "kernel fs"], "model": ["reference model of the command line (vf/src/model/cli.rs) sharing the tree's interpreter, slice parsers and value writers"], "simulated": ["stdin delivery schedule", "I/O faults", "stall"]},
            "samples": samples,
        }),
        assumptions: vec![
            "the interpreter, slice parsers and value writers of the tree are shared by model and system (C01/C07/C14 are not claimed)".into(),
            "stdout/stderr are never terminals in the simulator".into(),
        ],
    };
    finish(cfg, ev, violations, started)
}

fn opt_sig(inv: &Invocation) -> String {
    format!(
        "{}{}{}{}{}{}{}{}{}{}|{}|{}",
        if inv.null_input { 'n' } else { '-' },
        if inv.slurp { 's' } else { '-' },
        if inv.join { 'j' } else { '-' },
        if inv.compact { 'c' } else { '-' },
        if inv.tab { 't' } else { '-' },
        if inv.indent.is_some() { 'i' } else { '-' },
        if inv.sort_keys { 'S' } else { '-' },
        if inv.color { 'C' } else { '-' },
        if inv.mono { 'M' } else { '-' },
        if inv.exit_status { 'e' } else { '-' },
        inv.from.as_deref().unwrap_or("-"),
        inv.to.as_deref().unwrap_or("-"),
    )
}

pub fn replay(cfg: &Cfg, v: &Violation) -> Result<Option<(String, String)>, Harness> {
    if v.case.get("library_case").is_some() {
        return super::c17lib::replay(v);
    }
    let case: Case = serde_json::from_value(v.case.clone())?;
    let mut wk = Worker::new(cfg, 0)?;
    let (viol, _, _) = eval(&case, &mut wk)?;
    Ok(viol)
}
