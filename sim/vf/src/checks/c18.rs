//! C18 — `--in-place` replaces a file atomically and only after complete success.
//! Engine: simos (real binary under the ptrace simulator). Level: fault_enumeration.
use crate::common::*;
use crate::par::par_map;
use crate::rng::Rng;
use crate::worker::Worker;
use serde::{Deserialize, Serialize};
use serde_json::json;
use simos::tracer::{is_tmp_name, norm_tmp};
use simos::*;
use std::collections::{BTreeMap, BTreeSet};

pub const ID: &str = "C18";

#[derive(Clone, Debug, Serialize, Deserialize)]
pub struct Case {
    /// files, cwd, env; argv is assembled from the fields below
    pub world: World,
    /// options other than `-i`
    pub opts: Vec<String>,
    pub filter: String,
    /// file arguments as written on the command line
    pub args: Vec<String>,
    /// the same files as root-relative world paths
    pub paths: Vec<String>,
    /// halt is allowed to leave the file old or new (ambiguity table)
    #[serde(default)]
    pub halting: bool,
    pub faults: Vec<Fault>,
    /// "none" | "benign" | "hard" | "kill"
    pub stratum: String,
}

impl Case {
    fn argv(&self, in_place: bool, only: Option<usize>) -> Vec<String> {
        let mut v = Vec::new();
        if in_place {
            v.push("-i".to_string());
        }
        v.extend(self.opts.iter().cloned());
        v.push(self.filter.clone());
        match only {
            Some(i) => v.push(self.args[i].clone()),
            None => v.extend(self.args.iter().cloned()),
        }
        v
    }
    fn world_with(&self, argv: Vec<String>, faults: Vec<Fault>) -> World {
        World {
            argv,
            faults,
            mount_boundary: true,
            ..self.world.clone()
        }
    }
}

/// What the reference (non-in-place, fault-free, one file at a time) runs say.
#[derive(Clone, Debug, Serialize, Deserialize)]
pub struct Refs {
    pub old: Vec<Blob>,
    pub mode: Vec<u32>,
    /// stdout of `jaq OPTS FILTER file_i`
    pub out: Vec<Blob>,
    /// that run ended with status 0
    pub ok: Vec<bool>,
}

pub fn references(case: &Case, wk: &mut Worker) -> Result<Refs, Harness> {
    let mut r = Refs {
        old: vec![],
        mode: vec![],
        out: vec![],
        ok: vec![],
    };
    for (i, p) in case.paths.iter().enumerate() {
        let spec = case
            .world
            .files
            .iter()
            .find(|f| &f.path == p)
            .ok_or_else(|| Harness(format!("case has no file {p}")))?;
        r.old.push(spec.bytes.clone());
        r.mode.push(spec.mode);
        let w = case.world_with(case.argv(false, Some(i)), vec![]);
        let h = wk.run(&w)?;
        wk.tally.add("reference_runs");
        match h.exit {
            Exit::Exited(c) => r.ok.push(c == 0),
            ref e => {
                return Err(Harness(format!(
                    "reference run ended with {e:?}; stderr: {}",
                    String::from_utf8_lossy(&h.stderr.0)
                )))
            }
        }
        r.out.push(h.stdout);
    }
    Ok(r)
}

pub struct Judged {
    pub viol: Option<(String, String)>,
    pub tags: Vec<String>,
}

/// The invariants V1–V6 over the end state of one run.
pub fn judge(case: &Case, refs: &Refs, h: &History) -> Judged {
    let mut tags = Vec::new();
    let viol = judge_inner(case, refs, h, &mut tags);
    Judged { viol, tags }
}

fn dir_of(p: &str) -> &str {
    p.rsplit_once('/').map(|x| x.0).unwrap_or("")
}

fn judge_inner(
    case: &Case,
    refs: &Refs,
    h: &History,
    tags: &mut Vec<String>,
) -> Option<(String, String)> {
    let v = |c: &str, d: String| Some((c.to_string(), d));
    let completed = matches!(h.exit, Exit::Exited(_));
    // an injected hard failure relaxes "the outcome is fully determined"; the mount boundary
    // (EXDEV across directories) is part of the world, not a fault, and relaxes nothing
    let hard_fired = h.fired.iter().any(|f| f.contains("FAIL("));
    let unlink_faulted = h.fired.iter().any(|f| f.contains("unlink"));
    match h.exit {
        Exit::Hung => return v("V0", "run hung (no system call for the watchdog period)".into()),
        Exit::Stalled => return v("V0", "run blocked on stdin although files were given".into()),
        Exit::Signaled(s) => {
            return v("V0", format!("process died with signal {s}"));
        }
        Exit::Exited(101) => return v("V0", "process panicked (exit 101)".into()),
        _ => {}
    }
    let first_fail = refs.ok.iter().position(|ok| !ok);
    let input_dirs: BTreeSet<&str> = case.paths.iter().map(|p| dir_of(p)).collect();

    // V1/V2/V5 per input file
    let mut states = Vec::new(); // (is_old, is_new)
    for (i, p) in case.paths.iter().enumerate() {
        let Some(st) = h.files_after.get(p) else {
            return v("V1", format!("input file {p} no longer exists"));
        };
        if st.kind != Kind::File {
            return v("V1", format!("input file {p} is no longer a regular file"));
        }
        let is_old = st.bytes == refs.old[i];
        let new_allowed = refs.ok[i] && first_fail.map_or(true, |j| i < j);
        let is_new = st.bytes == refs.out[i];
        if !is_old && !(is_new && refs.ok[i]) {
            if !refs.ok[i] && is_new {
                return v(
                    "V2",
                    format!("{p} was replaced by the partial output of a run that failed on it"),
                );
            }
            let kind = if st.bytes.0.is_empty() {
                "is empty"
            } else if refs.out[i].0.starts_with(&st.bytes.0) {
                "holds a proper prefix of the output"
            } else {
                "holds bytes that are neither the original nor the complete output"
            };
            return v("V1", format!("{p} {kind} ({} bytes)", st.bytes.0.len()));
        }
        if !is_old && !new_allowed && !case.halting {
            return v(
                "V5",
                format!("{p} was replaced although an earlier file failed"),
            );
        }
        if is_old && !is_new && st.mode != refs.mode[i] {
            return v(
                "V3",
                format!(
                    "{p} still holds its original bytes but its mode changed {:o} -> {:o}",
                    refs.mode[i], st.mode
                ),
            );
        }
        states.push((is_old, is_new && refs.ok[i]));
    }
    // prefix order: a replaced file implies every earlier (replaceable) file replaced
    for i in 0..states.len() {
        let (old_i, new_i) = states[i];
        if new_i && !old_i {
            for j in 0..i {
                let (old_j, new_j) = states[j];
                if old_j && !new_j && refs.ok[j] {
                    return v(
                        "V5",
                        format!(
                            "{} was replaced before the earlier file {}",
                            case.paths[i], case.paths[j]
                        ),
                    );
                }
            }
        }
    }
    if states.len() > 1 && states.iter().any(|s| s.1 && !s.0) && states.iter().any(|s| s.0 && !s.1)
    {
        tags.push("reach:mixed_final_state".into());
    }

    // success must mean what it says
    if h.exit == Exit::Exited(0) && !case.halting {
        for (i, p) in case.paths.iter().enumerate() {
            if !refs.ok[i] {
                continue; // exit status in that situation is C17's business
            }
            if first_fail.is_some_and(|j| i > j) {
                continue;
            }
            let st = &h.files_after[p];
            if st.bytes != refs.out[i] {
                return v(
                    "V3",
                    format!("exit status 0 but {p} does not hold the complete output"),
                );
            }
            if st.mode != refs.mode[i] {
                return v(
                    "V3",
                    format!(
                        "exit status 0 but mode of {p} changed {:o} -> {:o}",
                        refs.mode[i], st.mode
                    ),
                );
            }
        }
    }
    // without any hard fault, the outcome is fully determined
    if completed && !hard_fired && case.stratum != "hard" && case.stratum != "kill" && !case.halting
    {
        for (i, p) in case.paths.iter().enumerate() {
            let should_new = refs.ok[i] && first_fail.map_or(true, |j| i < j);
            let (old, new) = states[i];
            if should_new && !new {
                return v(
                    "V3",
                    format!(
                        "no fault injected and the filter succeeded on {p}, but it was not replaced (exit {:?}, stderr {:?})",
                        h.exit,
                        String::from_utf8_lossy(&h.stderr.0)
                    ),
                );
            }
            if !should_new && !old {
                return v("V5", format!("{p} should have kept its original bytes"));
            }
            if should_new && h.files_after[p].mode != refs.mode[i] {
                return v(
                    "V3",
                    format!(
                        "mode of {p} changed {:o} -> {:o}",
                        refs.mode[i], h.files_after[p].mode
                    ),
                );
            }
        }
        if first_fail.is_none() && h.exit != Exit::Exited(0) {
            return v("V3", format!("no fault and no error, but exit {:?}", h.exit));
        }
    }

    // V4/V6: nothing else changes, nothing is left behind
    let before: BTreeMap<&str, &FileSpec> =
        case.world.files.iter().map(|f| (f.path.as_str(), f)).collect();
    let mut leftovers = Vec::new();
    for (p, st) in &h.files_after {
        match before.get(p.as_str()) {
            Some(spec) => {
                if case.paths.contains(p) {
                    continue;
                }
                let same = match (&spec.kind, &st.kind) {
                    // another name of an input file: whether it follows the replacement or keeps
                    // the old contents is not specified; it must still be a regular file
                    (Kind::Hardlink(_), Kind::File) => true,
                    (Kind::File, Kind::File) => spec.bytes == st.bytes && spec.mode == st.mode,
                    (Kind::Dir, Kind::Dir) => true,
                    (a, b) => a == b,
                };
                if !same {
                    return v("V4", format!("bystander {p} was modified"));
                }
            }
            None => {
                if st.kind == Kind::Dir && is_implied_dir(p, &case.world) {
                    continue;
                }
                leftovers.push(p.clone());
            }
        }
    }
    for spec in &case.world.files {
        if !h.files_after.contains_key(&spec.path) {
            return v("V4", format!("{} disappeared", spec.path));
        }
    }
    for l in &leftovers {
        if !input_dirs.contains(dir_of(l)) {
            return v(
                "V6",
                format!("a new entry {l} appeared outside the input files' directories"),
            );
        }
    }
    if completed {
        if !leftovers.is_empty() && !unlink_faulted {
            return v(
                "V4",
                format!("left behind on completion: {}", norm_tmp(&leftovers.join(", "))),
            );
        }
    } else {
        if leftovers.len() > 1 {
            return v(
                "V4",
                format!("a killed run left {} new entries: {}", leftovers.len(), leftovers.join(", ")),
            );
        }
        if let Some(l) = leftovers.first() {
            let name = l.rsplit('/').next().unwrap_or(l);
            if !is_tmp_name(name) {
                // a fixed name could collide with a user's file
                if before.keys().any(|k| k.rsplit('/').next() == Some(name)) {
                    return v("V4", format!("temporary file {l} uses a name that exists elsewhere"));
                }
            }
            tags.push("reach:kill_left_tmp".into());
        }
    }
    // V6 from the log: no mutation of anything outside the input files' directories
    for o in &h.ops {
        let mutating = match o.class {
            Class::Open => o.writes_flags(),
            Class::Rename | Class::Unlink | Class::Link | Class::Mkdir | Class::Mode => true,
            _ => false,
        };
        if !mutating || o.ret < 0 && o.injected.is_none() {
            continue;
        }
        for p in [&o.path, &o.path2].into_iter().flatten() {
            if let Some(rel) = p.strip_prefix("/@ROOT/") {
                if !input_dirs.contains(dir_of(rel)) {
                    return v(
                        "V6",
                        format!("{} on {p}: outside the input files' directories", o.name),
                    );
                }
            } else if p.starts_with('/') && !p.starts_with("/dev/") && !p.starts_with("/proc/") {
                return v("V6", format!("{} on {p}: outside the sandbox", o.name));
            }
        }
    }
    // reach probes
    if h.ops.iter().any(|o| o.class == Class::Rename && o.ret == 0) {
        tags.push("reach:rename_done".into());
    }
    if h
        .ops
        .iter()
        .any(|o| o.class == Class::Read && o.seq.is_some() && !o.is_std() && o.ret >= 0)
    {
        tags.push("reach:fallback_read_path".into());
    }
    if let Exit::Killed(s) = h.exit {
        let ren = h
            .ops
            .iter()
            .rev()
            .find(|o| o.class == Class::Rename && o.ret == 0)
            .and_then(|o| o.seq);
        let chm = h
            .ops
            .iter()
            .rev()
            .find(|o| o.name == "chmod" && o.ret == 0)
            .and_then(|o| o.seq);
        if ren.is_some_and(|r| r < s) && chm.map_or(true, |c| c < ren.unwrap()) {
            tags.push("reach:kill_between_rename_and_chmod".into());
        }
    }
    None
}

fn is_implied_dir(p: &str, w: &World) -> bool {
    p == w.cwd
        || w.files.iter().any(|f| f.path.starts_with(&format!("{p}/")))
        || p == "opt"
        || p == "opt/bin"
        || w.cwd.starts_with(&format!("{p}/"))
}

// -----------------------------------------------------------------------------------------
// generation

fn render_values(rng: &mut Rng, k: usize, bad: Option<usize>, big: bool) -> Vec<u8> {
    let mut s = String::new();
    let k = if big { 45 + rng.usize(30) } else { k };
    for i in 0..k {
        if bad == Some(i) {
            s.push_str(*rng.pick(&["{\"a\":", "}", "[1,", "tru", "\"abc"]));
            s.push('\n');
            break;
        }
        let v = match rng.usize(5) {
            0 => format!("{{\"a\": {i}, \"b\": \"v{i}\"}}"),
            1 => format!("{{\"a\":{i},\"b\":[{i}, {}], \"c\": null}}", i + 1),
            2 => format!("{{ \"b\": {{\"z\": true, \"y\": false}}, \"a\": {i} }}"),
            3 => format!("{{\"a\":\n  {i}\n}}"),
            _ => format!(
                "{{\"a\": {i}, \"s\": \"{}\"}}",
                "x".repeat(if big { 150 + rng.usize(60) } else { rng.usize(40) })
            ),
        };
        s.push_str(&v);
        s.push_str(*rng.pick(&["\n", " ", "\n\n", "\n"]));
    }
    if k > 0 && bad.is_none() && rng.chance(1, 4) {
        // no trailing separator
        while s.ends_with(['\n', ' ']) {
            s.pop();
        }
    }
    s.into_bytes()
}

const FILTERS: &[(&str, &[&str])] = &[
    (".", &[]),
    (".a", &[]),
    ("[., .]", &[]),
    ("empty", &[]),
    (".a, .b", &[]),
    ("if .a == 2 then error(\"boom\") else . end", &[]),
    ("if .a == 0 then error(\"first\") else . end", &[]),
    (".a, if .a == 1 then error(\"late\") else .b end", &[]),
    ("., input", &[]),
    ("[inputs]", &["-n"]),
    ("inputs | .a", &["-n"]),
    ("length", &["-s"]),
    (".", &["-s"]),
    ("first(inputs)", &["-n"]),
    ("limit(2; ., ., .)", &[]),
    ("{a, n: input_filename}", &[]),
    ("tojson", &["-r"]),
    // halting ends the whole run; whether the file being processed is replaced is not specified
    // (ambiguity table), but nothing may be left behind and other files stay as they are
    ("if .a == 1 then halt else . end", &[]),
    ("if .a == 0 then (\"bye\\n\" | halt_error) else . end", &[]),
    (".a, (if .a == 2 then halt(3) else empty end)", &[]),
];

const OUT_OPTS: &[&[&str]] = &[
    &[],
    &[],
    &["-c"],
    &["--tab"],
    &["--to", "yaml"],
    &["-S"],
    &["-r"],
    &["-j"],
    &["-c", "-S"],
    &["--indent", "1"],
    &["-C"],
];

const MODES: &[u32] = &[0o644, 0o600, 0o444, 0o664, 0o755, 0o640];

pub fn gen_case(rng: &mut Rng) -> Case {
    let nfiles = match rng.usize(20) {
        0..=9 => 1,
        10..=16 => 2,
        _ => 3,
    };
    let mut files = vec![FileSpec::dir("w"), FileSpec::dir("w/sub"), FileSpec::dir("other"), FileSpec::dir("tmp")];
    let mut args = Vec::new();
    let mut paths = Vec::new();
    let bad_file = if rng.chance(1, 4) {
        Some(rng.usize(nfiles))
    } else {
        None
    };
    let big_file = if rng.chance(1, 6) {
        Some(rng.usize(nfiles))
    } else {
        None
    };
    for i in 0..nfiles {
        let (arg, path) = match rng.usize(9) {
            0 | 1 => (format!("f{i}.json"), format!("w/f{i}.json")),
            2 => (format!("./f{i}.json"), format!("w/f{i}.json")),
            3 => (format!("sub/g{i}.json"), format!("w/sub/g{i}.json")),
            4 => (format!("/@ROOT/w/a{i}.json"), format!("w/a{i}.json")),
            5 => (format!("../other/h{i}.json"), format!("other/h{i}.json")),
            6 => (format!("plain{i}"), format!("w/plain{i}")),
            7 => (format!("/@ROOT/other/b{i}.json"), format!("other/b{i}.json")),
            _ => (format!("sub/../f{i}.json"), format!("w/f{i}.json")),
        };
        let k = match rng.usize(8) {
            0 => 0,
            1 => 1,
            n => n - 1,
        };
        let bad = (bad_file == Some(i)).then(|| rng.usize(k.max(1) + 1).min(k));
        let mut bytes = render_values(rng, k, bad, big_file == Some(i) && bad.is_none());
        if k == 0 && bad.is_none() && rng.chance(1, 2) {
            bytes.clear(); // truly empty file: mmap fails, fallback path
        }
        let mode = *rng.pick(MODES);
        files.push(FileSpec::file(path.clone(), bytes, mode));
        args.push(arg);
        paths.push(path);
    }
    // decoys that must stay untouched
    for p in paths.clone() {
        let (d, n) = p.rsplit_once('/').unwrap();
        if rng.chance(1, 2) {
            files.push(FileSpec::file(format!("{d}/{n}.tmp"), "decoy tmp\n", 0o644));
        }
        if rng.chance(1, 3) {
            let stem = n.rsplit_once('.').map_or(n, |x| x.0);
            files.push(FileSpec::file(format!("{d}/{stem}.tmp"), "decoy stem\n", 0o600));
        }
        if rng.chance(1, 3) {
            files.push(FileSpec::file(format!("{d}/.{n}.swp"), "decoy swp\n", 0o644));
        }
        if rng.chance(1, 4) {
            files.push(FileSpec::file(format!("{d}/jaq"), "decoy named like the prefix\n", 0o644));
        }
    }
    // a second name (hard link) for some input files, in the same or another directory
    for (i, p) in paths.clone().iter().enumerate() {
        if rng.chance(1, 5) {
            let (d, n) = p.rsplit_once('/').unwrap();
            let link = if rng.chance(1, 2) { format!("{d}/{n}.lnk") } else { format!("tmp/link{i}") };
            files.push(FileSpec::hardlink(link, p.clone()));
        }
    }
    files.push(FileSpec::file("w/unrelated.txt", "leave me alone\n", 0o640));
    files.push(FileSpec::file("tmp/keep", "tmpdir content\n", 0o644));
    // dedupe by path (same path may have been drawn twice): keep the first
    let mut seen = BTreeSet::new();
    files.retain(|f| seen.insert(f.path.clone()));
    // if two arguments name the same path, drop the later ones
    let mut seenp = BTreeSet::new();
    let mut a2 = Vec::new();
    let mut p2 = Vec::new();
    for (a, p) in args.into_iter().zip(paths) {
        if seenp.insert(p.clone()) {
            a2.push(a);
            p2.push(p);
        }
    }
    let (filter, fopts) = *rng.pick(FILTERS);
    let mut opts: Vec<String> = fopts.iter().map(|s| s.to_string()).collect();
    opts.extend(rng.pick(OUT_OPTS).iter().map(|s| s.to_string()));
    let env = vec![
        ("HOME".to_string(), "/@ROOT/home".to_string()),
        ("TMPDIR".to_string(), "/@ROOT/tmp".to_string()),
        ("PATH".to_string(), "/usr/bin:/bin".to_string()),
    ];
    Case {
        world: World {
            files,
            cwd: "w".into(),
            env,
            entropy: rng.next(),
            umask: Some(*rng.pick(&[0o022, 0o022, 0o002, 0o077, 0o027, 0o000, 0o007])),
            ..Default::default()
        },
        opts,
        filter: filter.to_string(),
        args: a2,
        paths: p2,
        halting: filter.contains("halt"),
        faults: vec![],
        stratum: "none".into(),
    }
}

fn errno_menu(op: &Op) -> Vec<i32> {
    use libc::*;
    match op.class {
        Class::Open => {
            if op.writes_flags() {
                vec![EACCES, ENOSPC, EMFILE, EROFS, EEXIST]
            } else {
                vec![ENOENT, EACCES, EMFILE, EISDIR, ELOOP]
            }
        }
        Class::Stat => vec![ENOENT, EACCES],
        Class::Read => vec![EIO, EISDIR],
        Class::Write => vec![ENOSPC, EIO, EDQUOT, EFBIG],
        Class::Map => vec![ENODEV, ENOMEM, EACCES],
        Class::Rename => vec![EACCES, ENOSPC, EIO, EROFS, EXDEV],
        Class::Unlink => vec![EACCES, EROFS],
        Class::Mode => vec![EPERM, EROFS],
        Class::Cwd => vec![ENOENT],
        Class::Fd => match op.name.as_str() {
            "close" => vec![EIO],
            "fcntl" => vec![EINVAL],
            _ => vec![],
        },
        Class::Sync => vec![EIO],
        _ => vec![],
    }
}

/// All single-fault plans for the trace of the fault-free run.
pub fn fault_space(h: &History) -> Vec<(String, Vec<Fault>)> {
    let mut v = Vec::new();
    let all: Vec<&Op> = h.counted_ops().collect();
    // a long run of consecutive identical operations (the many small writes of one output) is
    // represented by its first 3, 2 middle and last 3 members
    let mut counted: Vec<&Op> = Vec::new();
    let mut i = 0;
    while i < all.len() {
        let mut j = i;
        while j + 1 < all.len() && all[j + 1].sig() == all[i].sig() {
            j += 1;
        }
        let len = j - i + 1;
        if len <= 8 {
            counted.extend(&all[i..=j]);
        } else {
            let mid = i + len / 2;
            for k in [i, i + 1, i + 2, mid - 1, mid, j - 2, j - 1, j] {
                counted.push(all[k]);
            }
        }
        i = j + 1;
    }
    for o in &counted {
        let seq = o.seq.unwrap();
        let sig = Some(o.sig());
        v.push((
            "kill".to_string(),
            vec![Fault {
                at: At::Seq(seq),
                kind: FaultKind::KillBefore,
                sig: sig.clone(),
            }],
        ));
        for e in errno_menu(o) {
            v.push((
                "hard".to_string(),
                vec![Fault {
                    at: At::Seq(seq),
                    kind: FaultKind::Fail(e),
                    sig: sig.clone(),
                }],
            ));
        }
        if o.class == Class::Write && !o.is_std() && o.count > 1 {
            for n in torn_points(o.count) {
                v.push((
                    "kill".to_string(),
                    vec![Fault {
                        at: At::Seq(seq),
                        kind: FaultKind::Torn(n),
                        sig: sig.clone(),
                    }],
                ));
            }
        }
        if matches!(o.class, Class::Read | Class::Write) {
            v.push((
                "benign".to_string(),
                vec![Fault {
                    at: At::Seq(seq),
                    kind: FaultKind::Eintr,
                    sig: sig.clone(),
                }],
            ));
            if o.count > 1 {
                v.push((
                    "benign".to_string(),
                    vec![Fault {
                        at: At::Seq(seq),
                        kind: FaultKind::Short(1.max(o.count as u32 / 2)),
                        sig: sig.clone(),
                    }],
                ));
            }
        }
    }
    if let Some(last) = all.last() {
        v.push((
            "kill".to_string(),
            vec![Fault {
                at: At::Seq(last.seq.unwrap()),
                kind: FaultKind::KillAfter,
                sig: Some(last.sig()),
            }],
        ));
    }
    v
}

fn torn_points(count: u64) -> Vec<u32> {
    let mut v = vec![1u32];
    if count > 2 {
        v.push((count / 2) as u32);
    }
    if count > 3 {
        v.push((count - 1) as u32);
    }
    v.dedup();
    v
}

/// Importance weights for sampling in the quick tier: ops around the replacement.
fn interesting(o: &Op) -> u64 {
    match o.class {
        Class::Rename => 8,
        Class::Mode => 6,
        Class::Open if o.writes_flags() => 6,
        Class::Open => 3,
        Class::Stat if o.path.is_some() => 5,
        Class::Map => 4,
        Class::Unlink => 4,
        Class::Write if !o.is_std() => 2,
        Class::Cwd => 3,
        _ => 1,
    }
}


pub struct Outcome {
    viol: Option<Violation>,
    tally: Tally,
    triples: BTreeSet<String>,
    sample: Option<serde_json::Value>,
}

fn fingerprint(case: &Case, h: Option<&History>) -> BTreeMap<String, String> {
    let mut m = BTreeMap::new();
    m.insert("filter".into(), case.filter.clone());
    m.insert("opts".into(), case.opts.join(" "));
    m.insert("stratum".into(), case.stratum.clone());
    if let Some(h) = h {
        m.insert(
            "fault".into(),
            h.fired
                .iter()
                .map(|f| f.split_once(' ').map_or(f.as_str(), |x| x.1).to_string())
                .collect::<Vec<_>>()
                .join("; "),
        );
    }
    m
}

/// Evaluate one fully materialised case (this is also what replay does).
pub fn eval(case: &Case, wk: &mut Worker) -> Result<(Option<(String, String)>, History, Vec<String>), Harness> {
    let refs = references(case, wk)?;
    let w = case.world_with(case.argv(true, None), case.faults.clone());
    let h = wk.run(&w)?;
    let j = judge(case, &refs, &h);
    Ok((j.viol, h, j.tags))
}

fn shrink_candidates(case: &Case) -> Vec<Case> {
    let mut out = Vec::new();
    // drop a file argument
    if case.args.len() > 1 {
        for i in 0..case.args.len() {
            let mut c = case.clone();
            c.args.remove(i);
            let p = c.paths.remove(i);
            c.world.files.retain(|f| f.path != p);
            out.push(c);
        }
    }
    // drop bystanders
    for (i, f) in case.world.files.iter().enumerate() {
        if f.kind == Kind::File && !case.paths.contains(&f.path) {
            let mut c = case.clone();
            c.world.files.remove(i);
            out.push(c);
        }
    }
    // drop options
    for i in 0..case.opts.len() {
        let mut c = case.clone();
        let o = c.opts.remove(i);
        if (o == "--to" || o == "--indent") && i < c.opts.len() {
            c.opts.remove(i);
        }
        out.push(c);
    }
    // simpler filter
    if case.filter != "." {
        let mut c = case.clone();
        c.filter = ".".into();
        out.push(c);
    }
    // smaller contents: keep the first value only
    for (i, f) in case.world.files.iter().enumerate() {
        if case.paths.contains(&f.path) && f.bytes.0.len() > 24 {
            let mut c = case.clone();
            c.world.files[i].bytes = Blob(b"{\"a\": 0, \"b\": 1}\n".to_vec());
            out.push(c);
        }
    }
    // fewer faults
    if case.faults.len() > 1 {
        for i in 0..case.faults.len() {
            let mut c = case.clone();
            c.faults.remove(i);
            out.push(c);
        }
    }
    out
}

/// Shrinking a case with `Seq`-addressed faults changes the trace, so each candidate's fault is
/// re-anchored on the op with the same signature in the candidate's own fault-free trace.
fn reanchor(case: &Case, wk: &mut Worker) -> Result<Option<Case>, Harness> {
    if case.faults.is_empty() {
        return Ok(Some(case.clone()));
    }
    let w = case.world_with(case.argv(true, None), vec![]);
    let h = wk.run(&w)?;
    let mut c = case.clone();
    for f in &mut c.faults {
        if let (At::Seq(_), Some(sig)) = (&f.at, &f.sig) {
            let Some(o) = h.counted_ops().find(|o| &o.sig() == sig) else {
                return Ok(None);
            };
            f.at = At::Seq(o.seq.unwrap());
        }
    }
    Ok(Some(c))
}

pub fn minimise(case: &Case, class: &str, wk: &mut Worker) -> Result<(Case, u32), Harness> {
    let mut cur = case.clone();
    let mut steps = 0;
    let mut budget = 60;
    'outer: loop {
        for cand in shrink_candidates(&cur) {
            if budget == 0 {
                break 'outer;
            }
            budget -= 1;
            let Some(cand) = reanchor(&cand, wk)? else {
                continue;
            };
            match eval(&cand, wk) {
                Ok((Some((c, _)), h, _)) if c == class && !h.diverged => {
                    cur = cand;
                    steps += 1;
                    continue 'outer;
                }
                _ => {}
            }
        }
        break;
    }
    Ok((cur, steps))
}

pub fn check(cfg: &Cfg) -> Result<i32, Harness> {
    let started = std::time::Instant::now();
    let n_worlds = cfg.n(40, 160);
    let per_world_quick = 25usize;
    // phase A: worlds, references, fault-free traces
    let idx: Vec<u64> = (0..n_worlds as u64).collect();
    struct Prep {
        case: Case,
        refs: Refs,
        base: History,
        viol: Option<(String, String)>,
        tags: Vec<String>,
    }
    let preps: Vec<Result<(Prep, Tally), Harness>> = par_map(
        &idx,
        cfg.simos_workers,
        |k| Worker::new(cfg, k),
        |wk, _, &i| {
            let wk = wk.as_mut().map_err(|e| Harness(e.0.clone()))?;
            wk.tally = Tally::default();
            let mut rng = Rng::for_run(cfg.seed, ID, i);
            let case = gen_case(&mut rng);
            let refs = references(&case, wk)?;
            let w = case.world_with(case.argv(true, None), vec![]);
            let base = wk.run(&w)?;
            let j = judge(&case, &refs, &base);
            Ok((
                Prep {
                    case,
                    refs,
                    base,
                    viol: j.viol,
                    tags: j.tags,
                },
                wk.tally.clone(),
            ))
        },
    );
    let mut tally = Tally::default();
    let mut violations = Vec::new();
    let mut triples = BTreeSet::new();
    let mut samples = Vec::new();
    let mut tasks: Vec<(usize, String, Vec<Fault>, u64)> = Vec::new();
    let mut prepped = Vec::new();
    for (i, p) in preps.into_iter().enumerate() {
        let (p, t) = p?;
        tally.merge(&t);
        record_digest(i as u64 * 100_000, p.base.digest());
        tally.add("fault_free_runs");
        for t in &p.tags {
            tally.add(t.clone());
        }
        if let Some((class, detail)) = &p.viol {
            violations.push(Violation {
                property: ID.into(),
                class: class.clone(),
                detail: detail.clone(),
                fingerprint: fingerprint(&p.case, Some(&p.base)),
                case: serde_json::to_value(&p.case)?,
                seed: cfg.seed,
                run: i as u64 * 100_000,
                minimised_steps: 0,
            });
        }
        let space = fault_space(&p.base);
        tally.add_n("fault_space_total", space.len() as u64);
        let chosen: Vec<(String, Vec<Fault>)> = if cfg.tier == Tier::Thorough {
            space
        } else {
            // weighted sample without replacement, biased to the ops around the replacement
            let mut rng = Rng::for_run(cfg.seed ^ 0xA5A5, ID, i as u64);
            let ops: BTreeMap<u32, &Op> =
                p.base.counted_ops().map(|o| (o.seq.unwrap(), o)).collect();
            let mut weighted: Vec<(u64, (String, Vec<Fault>))> = space
                .into_iter()
                .map(|(s, f)| {
                    let w = match &f[0].at {
                        At::Seq(q) => ops.get(q).map_or(1, |o| interesting(o)),
                        _ => 1,
                    };
                    // exponential-ish key for weighted sampling: larger weight => smaller key
                    let key = rng.below(1 << 20) / w;
                    (key, (s, f))
                })
                .collect();
            weighted.sort_by_key(|x| x.0);
            weighted
                .into_iter()
                .take(per_world_quick)
                .map(|x| x.1)
                .collect()
        };
        let n_single = chosen.len();
        // two faults per run: a failure or a benign disturbance first, then a kill further on.
        // Any kill point is legitimate (the invariants are state-based), so it does not matter
        // that the first fault shifts the later operations.
        let mut pairs: Vec<(String, Vec<Fault>)> = Vec::new();
        {
            let mut rng = Rng::for_run(cfg.seed ^ 0x5A5A, ID, i as u64);
            let firsts: Vec<&(String, Vec<Fault>)> = chosen.iter().filter(|(s, _)| s != "kill").collect();
            let n_pairs = if cfg.tier == Tier::Thorough { 40 } else { 4 };
            if !firsts.is_empty() && p.base.counted > 2 {
                for _ in 0..n_pairs {
                    let (_, f1) = *rng.pick(&firsts);
                    let at1 = match f1[0].at {
                        At::Seq(q) => q,
                        _ => 0,
                    };
                    let span = (p.base.counted + 3).saturating_sub(at1 + 1).max(1);
                    let j = at1 + 1 + rng.below(span as u64) as u32;
                    let mut fs = f1.clone();
                    fs.push(Fault { at: At::Seq(j), kind: FaultKind::KillBefore, sig: None });
                    pairs.push(("kill".to_string(), fs));
                }
            }
        }
        tally.add_n("fault_pairs", pairs.len() as u64);
        for (k, (stratum, f)) in chosen.into_iter().chain(pairs).enumerate() {
            tasks.push((i, stratum, f, i as u64 * 100_000 + 1 + k as u64));
        }
        let _ = n_single;
        if samples.len() < 3 {
            samples.push(json!({
                "argv": p.case.argv(true, None),
                "files": p.case.paths,
                "counted_ops_fault_free": p.base.counted,
                "trace": p.base.counted_ops().map(|o| o.sig()).collect::<Vec<_>>(),
            }));
        }
        prepped.push(p);
    }
    // phase B: the faulted runs
    let results: Vec<Result<Outcome, Harness>> = par_map(
        &tasks,
        cfg.simos_workers,
        |k| Worker::new(cfg, k),
        |wk, _, (ci, stratum, faults, run)| {
            let wk = wk.as_mut().map_err(|e| Harness(e.0.clone()))?;
            wk.tally = Tally::default();
            let p = &prepped[*ci];
            let mut case = p.case.clone();
            case.faults = faults.clone();
            case.stratum = stratum.clone();
            let w = case.world_with(case.argv(true, None), case.faults.clone());
            let h = wk.run(&w)?;
            record_digest(*run, h.digest());
            if std::env::var("VF_TRACE_DUMP").ok().and_then(|s| s.parse::<u64>().ok()) == Some(*run) {
                eprintln!("DUMP argv={:?} faults={:?}", w.argv, w.faults);
                for o in &h.ops {
                    eprintln!("DUMP {:?} {} ret={} inj={:?}", o.seq, o.sig(), o.ret, o.injected);
                }
                eprintln!("DUMP exit={:?} stdout={:?} stderr={:?}", h.exit, String::from_utf8_lossy(&h.stdout.0), String::from_utf8_lossy(&h.stderr.0));
                for (p, f) in &h.files_after {
                    eprintln!("DUMP file {p} {:?} {} {:o}", f.kind, f.bytes.0.len(), f.mode);
                }
            }
            let mut tally = Tally::default();
            let mut triples = BTreeSet::new();
            tally.add(format!("runs:{stratum}"));
            let mut j = judge(&case, &p.refs, &h);
            // benign stratum: outcome must equal the fault-free outcome exactly
            if j.viol.is_none() && stratum == "benign" {
                if h.exit != p.base.exit {
                    j.viol = Some((
                        "V7".into(),
                        format!(
                            "a benign fault ({}) changed the exit from {:?} to {:?}; stderr {:?}",
                            h.fired.join(";"),
                            p.base.exit,
                            h.exit,
                            String::from_utf8_lossy(&h.stderr.0)
                        ),
                    ));
                } else {
                    let strip = |m: &BTreeMap<String, FileState>| -> Vec<(String, FileState)> {
                        m.iter().map(|(k, v)| (k.clone(), v.clone())).collect()
                    };
                    if strip(&h.files_after) != strip(&p.base.files_after) {
                        j.viol = Some((
                            "V7".into(),
                            format!("a benign fault ({}) changed the final file system state", h.fired.join(";")),
                        ));
                    }
                }
            }
            for f in &h.fired {
                let mut it = f.splitn(3, ' ');
                let (_seq, kind, sig) = (it.next(), it.next().unwrap_or(""), it.next().unwrap_or(""));
                tally.add(format!("fired:{kind}"));
                let opname = sig.split(' ').next().unwrap_or("");
                // non-trivial: the fault landed while there was something to protect
                let first_open = p.base.counted_ops().find(|o| o.class == Class::Open).and_then(|o| o.seq);
                let last = p.base.counted_ops().filter(|o| o.class == Class::Mode).last().and_then(|o| o.seq);
                let at = f.split(' ').next().and_then(|s| s.parse::<u32>().ok());
                if let (Some(a), Some(fo)) = (at, first_open) {
                    if a >= fo && last.map_or(true, |l| a <= l) {
                        let shape = shape_hash(&p.base);
                        triples.insert(format!("{shape:x}/{kind}/{opname}"));
                    } else {
                        tally.add("trivial_fault_position");
                    }
                }
            }
            if h.fired.is_empty() {
                tally.add("fault_did_not_fire");
            }
            for t in &j.tags {
                tally.add(t.clone());
            }
            if h.diverged {
                tally.add("diverged");
            }
            let viol = match j.viol {
                None => None,
                Some((class, detail)) => {
                    let (mcase, steps) = minimise(&case, &class, wk).unwrap_or((case.clone(), 0));
                    Some(Violation {
                        property: ID.into(),
                        class,
                        detail,
                        fingerprint: fingerprint(&case, Some(&h)),
                        case: serde_json::to_value(&mcase)?,
                        seed: cfg.seed,
                        run: *run,
                        minimised_steps: steps,
                    })
                }
            };
            tally.merge(&wk.tally);
            let sample = (*run % 100_000 == 1 && *ci < 2).then(|| {
                json!({"argv": case.argv(true, None), "fault": h.fired, "exit": format!("{:?}", h.exit)})
            });
            Ok(Outcome {
                viol,
                tally,
                triples,
                sample,
            })
        },
    );
    let mut evaluations = prepped.len() as u64;
    for r in results {
        let o = r?;
        evaluations += 1;
        tally.merge(&o.tally);
        triples.extend(o.triples);
        if let Some(v) = o.viol {
            violations.push(v);
        }
        if let Some(s) = o.sample {
            if samples.len() < 6 {
                samples.push(s);
            }
        }
    }
    let exhaustive_per_world = cfg.tier == Tier::Thorough;
    let ev = Evidence {
        property: ID,
        level: "fault_enumeration",
        coverage: json!({
            "evaluations": evaluations,
            "distinct_nontrivial": triples.len(),
            "rule": "worlds drawn from the seed (1-3 input files, paths/modes/contents/filters/options varied, decoys); per world the fault-free -i trace defines the space {KILL_BEFORE at every counted op, KILL_AFTER the last, TORN at 3 cut points of every file write, FAIL(errno) for every errno of the op's menu, EINTR/SHORT on every read/write}; thorough sweeps that space completely per world, quick samples it with weights favouring open/stat/rename/chmod; on top, runs with two faults (a failure or benign disturbance, then a kill at a later operation: 4 per world quick, 40 thorough). distinct = distinct (fault-free trace shape, fault kind, faulted syscall) triples among faults that fired between the first open of an input and the last chmod; trivial = fault never fired or fired outside that window.",
            "exhaustive": false,
            "fault_space_swept_completely_per_world": exhaustive_per_world,
            "worlds": prepped.len(),
            "faults_fired": tally.0.iter().filter(|(k, _)| k.starts_with("fired:")).map(|(k, v)| (k[6..].to_string(), *v)).collect::<BTreeMap<_, _>>(),
            "runs_by_stratum": tally.0.iter().filter(|(k, _)| k.starts_with("runs:")).map(|(k, v)| (k[5..].to_string(), *v)).collect::<BTreeMap<_, _>>(),
            "reach_probes": tally.0.iter().filter(|(k, _)| k.starts_with("reach:")).map(|(k, v)| (k[6..].to_string(), *v)).collect::<BTreeMap<_, _>>(),
            "reference_runs": tally.get("reference_runs"),
            "fault_space_total": tally.get("fault_space_total"),
            "two_fault_runs": tally.get("fault_pairs"),
            "faults_that_did_not_fire": tally.get("fault_did_not_fire"),
            "real_vs_stub": {"real": ["jaq binary built from /repo working tree (dev profile, shipped features)", "libc", "kernel file system in a private directory"], "simulated": ["fault decisions at the system-call boundary", "process kill", "mount boundary (EXDEV across directories)", "getrandom", "environment"]},
            "samples": samples,
        }),
        assumptions: vec![
            "expected bytes per file are what the same binary prints without -i for that file alone (the statement's own definition)".into(),
            "a killed process, not power loss: the kernel's file system is the durable state".into(),
            "the ptrace tracer and kernel are trusted".into(),
        ],
    };
    finish(cfg, ev, violations, started)
}

fn shape_hash(h: &History) -> u64 {
    let mut f = simos::tracer::Fnv::new();
    let mut last = String::new();
    for o in h.counted_ops() {
        // collapse runs of identical ops so that output size does not make every trace unique
        let s = format!("{}:{:?}", o.name, o.class);
        if s != last {
            f.write(s.as_bytes());
            last = s;
        }
    }
    f.finish()
}

pub fn replay(cfg: &Cfg, v: &Violation) -> Result<Option<(String, String)>, Harness> {
    let case: Case = serde_json::from_value(v.case.clone())?;
    let mut wk = Worker::new(cfg, 0)?;
    let (viol, h, _) = eval(&case, &mut wk)?;
    if h.diverged {
        return Err(Harness(
            "diverged: the fault no longer lands on the operation recorded in the replay file".into(),
        ));
    }
    Ok(viol)
}
