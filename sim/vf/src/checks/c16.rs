//! C16 (restricted scope) — module and data files are looked up in a fixed order.
//! Engine: simos. Claimed: search order (directive `search` paths relative to the importing
//! file / the cwd for an inline program, before `-L` paths or the defaults), `~`/`$ORIGIN`
//! expansion, extension rule, refusal of absolute paths, cycles reported, load-once.
//! Not claimed: "modular program = inlined program" (pure).
use crate::common::*;
use crate::par::par_map;
use crate::rng::Rng;
use crate::worker::Worker;
use serde::{Deserialize, Serialize};
use serde_json::json;
use simos::*;
use std::collections::{BTreeMap, BTreeSet};

pub const ID: &str = "C16";
const CWD: &str = "w";
const HOME: &str = "home";
const ORIGIN: &str = "opt/bin";

/// One `include`/`import` directive of the main program together with the model's view of it.
#[derive(Clone, Debug, Serialize, Deserialize)]
pub struct Directive {
    /// "include" | "import" | "data"
    pub kind: String,
    /// name as written in the program
    pub name: String,
    /// metadata as written (`{search: ...}`), may be empty
    pub meta: String,
    /// root-relative candidate *files*, in the order of the statement
    pub candidates: Vec<String>,
    /// what each existing candidate announces when loaded (path -> tag)
    pub tags: BTreeMap<String, String>,
    /// the name is an absolute path: must be refused
    #[serde(default)]
    pub absolute: bool,
    /// identifier used for the definition (`def <ident>: "tag";`) or the variable
    pub ident: String,
}

#[derive(Clone, Debug, Serialize, Deserialize)]
pub struct Case {
    pub files: Vec<FileSpec>,
    pub argv: Vec<String>,
    pub env: Vec<(String, String)>,
    pub directives: Vec<Directive>,
    /// "lookup" | "cycle" | "diamond" | "fault"
    pub scenario: String,
    /// expected in-degree per module file for the load-once bound (diamond scenario)
    #[serde(default)]
    pub indegree: BTreeMap<String, u32>,
    #[serde(default)]
    pub faults: Vec<Fault>,
    /// root-relative path the fault is aimed at
    #[serde(default)]
    pub faulted: Option<String>,
}

impl Case {
    pub fn world(&self) -> World {
        World {
            files: self.files.clone(),
            cwd: CWD.into(),
            env: self.env.clone(),
            argv: self.argv.clone(),
            stdin: Stdin::default(),
            faults: self.faults.clone(),
            mount_boundary: false,
            entropy: 3,
            umask: None,
            stdout_tty: false,
        }
    }
}

// -----------------------------------------------------------------------------------------
// the model: which file does a directive denote?

fn lex_join(base: &str, rel: &str) -> String {
    let j = if rel.starts_with('/') {
        rel.to_string()
    } else {
        format!("/{base}/{rel}")
    };
    simos::tracer::lex_norm(&j)[1..].to_string()
}

/// Expand a search path as written into a root-relative directory. `base`: what a relative
/// path is relative to (root-relative).
fn expand(spec: &str, base: &str) -> String {
    if let Some(rest) = spec.strip_prefix("/@ROOT/") {
        return lex_join("", &format!("/{rest}"));
    }
    let (first, rest) = spec.split_once('/').unwrap_or((spec, ""));
    match first {
        "~" => lex_join(HOME, rest),
        "$ORIGIN" => lex_join(ORIGIN, rest),
        _ => lex_join(base, spec),
    }
}

/// File name a directive denotes: the extension is appended only when none is given.
fn with_ext(name: &str, ext: &str) -> String {
    let last = name.rsplit('/').next().unwrap_or(name);
    let has_ext = match last.rfind('.') {
        Some(0) | None => false,
        Some(_) => true,
    };
    if has_ext {
        name.to_string()
    } else {
        format!("{name}.{ext}")
    }
}

/// What the file system holds at `path` once symlinks are followed.
enum Node<'a> {
    File(&'a FileSpec),
    Dir,
    Missing,
}

fn resolve<'a>(files: &'a [FileSpec], path: &str, depth: u32) -> Node<'a> {
    if depth > 8 {
        return Node::Missing; // symlink loop
    }
    match files.iter().find(|f| f.path == path) {
        Some(f) => match &f.kind {
            Kind::File => Node::File(f),
            Kind::Dir => Node::Dir,
            Kind::Hardlink(_) | Kind::Fifo => Node::Missing,
            Kind::Symlink(t) => {
                let target = if let Some(abs) = t.strip_prefix("/@ROOT/") {
                    abs.to_string()
                } else {
                    let dir = path.rsplit_once('/').map_or("", |x| x.0);
                    lex_join(dir, t)
                };
                resolve(files, &target, depth + 1)
            }
        },
        None => {
            if files.iter().any(|f| f.path.starts_with(&format!("{path}/"))) {
                Node::Dir
            } else {
                Node::Missing
            }
        }
    }
}

/// Candidates of `d` that exist as regular files, in order.
fn matches<'a>(case: &'a Case, d: &'a Directive) -> Vec<&'a String> {
    d.candidates
        .iter()
        .filter(|c| matches!(resolve(&case.files, c, 0), Node::File(_)))
        .collect()
}

#[derive(Clone, Debug, Serialize, Deserialize)]
pub struct Expect {
    /// accepted (exit status, stdout) pairs; stdout None = not compared
    pub outcomes: Vec<(i32, Option<String>)>,
    pub why: String,
}

fn render_out(tags: &[(String, String)]) -> String {
    // [a_who, b::who, $d] with -c
    let parts: Vec<String> = tags
        .iter()
        .map(|(kind, t)| {
            if kind == "data" {
                format!("[\"{t}\",2]")
            } else {
                format!("\"{t}\"")
            }
        })
        .collect();
    format!("[{}]\n", parts.join(","))
}

pub fn expect(case: &Case) -> Expect {
    match case.scenario.as_str() {
        "cycle" => Expect {
            outcomes: vec![(3, Some(String::new()))],
            why: "circular include/import must be reported".into(),
        },
        _ => {
            if let Some(d) = case.directives.iter().find(|d| d.absolute) {
                return Expect {
                    outcomes: vec![(3, Some(String::new()))],
                    why: format!("absolute path {} must be refused", d.name),
                };
            }
            // per directive: the tags that may legitimately be loaded
            let mut alts: Vec<Vec<Option<(String, String)>>> = Vec::new();
            for d in &case.directives {
                let m = matches(case, d);
                let mut a = Vec::new();
                match m.first() {
                    None => a.push(None),
                    Some(first) => {
                        a.push(Some((d.kind.clone(), d.tags[*first].clone())));
                        if case.faulted.as_deref() == Some(first.as_str()) {
                            // an unreadable better-ranked candidate: report (3) or go on
                            a.push(None);
                            // the next candidate that is another file (a directory may be listed twice)
                            if let Some(second) = m.iter().find(|c| **c != *first) {
                                a.push(Some((d.kind.clone(), d.tags[*second].clone())));
                            }
                            // the faulted one itself is no longer acceptable
                            a.remove(0);
                        }
                    }
                }
                alts.push(a);
            }
            let mut outcomes = Vec::new();
            // cartesian product (at most one directive is faulted, so this stays tiny)
            let mut idx = vec![0usize; alts.len()];
            loop {
                let pick: Vec<&Option<(String, String)>> =
                    idx.iter().zip(&alts).map(|(i, a)| &a[*i]).collect();
                if pick.iter().any(|p| p.is_none()) {
                    if !outcomes.iter().any(|(c, _)| *c == 3) {
                        outcomes.push((3, Some(String::new())));
                    }
                } else {
                    let tags: Vec<(String, String)> =
                        pick.iter().map(|p| (*p).clone().unwrap()).collect();
                    outcomes.push((0, Some(render_out(&tags))));
                }
                let mut k = 0;
                loop {
                    if k == idx.len() {
                        return Expect {
                            outcomes,
                            why: "first existing regular file in the order of the statement".into(),
                        };
                    }
                    idx[k] += 1;
                    if idx[k] < alts[k].len() {
                        break;
                    }
                    idx[k] = 0;
                    k += 1;
                }
            }
        }
    }
}

pub fn judge(case: &Case, h: &History) -> Option<(String, String)> {
    let v = |c: &str, d: String| Some((c.to_string(), d));
    // a fault that never fired (e.g. a read fault on a file that is memory-mapped) relaxes nothing
    let unfaulted;
    let case = if case.faulted.is_some() && h.fired.is_empty() {
        unfaulted = Case { faulted: None, ..case.clone() };
        &unfaulted
    } else {
        case
    };
    let exp = expect(case);
    let out = String::from_utf8_lossy(&h.stdout.0).into_owned();
    let err = String::from_utf8_lossy(&h.stderr.0).into_owned();
    let code = match h.exit {
        Exit::Hung => return v("L0", "run hung".into()),
        Exit::Stalled => return v("L0", "run blocked on stdin (-n was given)".into()),
        Exit::Signaled(s) => return v("L0", format!("process died with signal {s}")),
        Exit::Killed(_) => return None,
        Exit::Exited(101) => return v("L0", format!("process panicked: {err}")),
        Exit::Exited(c) => c,
    };
    let ok = exp
        .outcomes
        .iter()
        .any(|(c, o)| *c == code && o.as_ref().map_or(true, |o| *o == out));
    if !ok {
        let class = match case.scenario.as_str() {
            "cycle" => "L3",
            _ if case.directives.iter().any(|d| d.absolute) => "L2",
            _ if code == 0 && exp.outcomes.iter().any(|(c, _)| *c == 0) => "L1",
            _ => "L5",
        };
        return v(
            class,
            format!(
                "{}: exit {code}, stdout {out:?}; accepted {:?}; stderr {:?}",
                exp.why,
                exp.outcomes,
                err.chars().take(300).collect::<String>()
            ),
        );
    }
    if code == 3 && err.is_empty() {
        return v("L5", "status 3 without a diagnostic".into());
    }
    // load-once: a module file is not opened more often than it is referred to
    if code == 0 {
        for (p, deg) in &case.indegree {
            let want = format!("/@ROOT/{p}");
            let opens = h
                .ops
                .iter()
                .filter(|o| o.class == Class::Open && o.ret >= 0 && o.path.as_deref() == Some(&want))
                .count() as u32;
            if opens > *deg {
                return v(
                    "L4",
                    format!("{p} was opened {opens} times although only {deg} directives refer to it"),
                );
            }
        }
    }
    None
}

// -----------------------------------------------------------------------------------------
// generation

struct Gen<'r> {
    rng: &'r mut Rng,
    files: Vec<FileSpec>,
    tagn: u32,
}

impl Gen<'_> {
    fn tag(&mut self, what: &str) -> String {
        self.tagn += 1;
        format!("{what}#{}", self.tagn)
    }
    fn put(&mut self, f: FileSpec) {
        if !self.files.iter().any(|g| g.path == f.path) {
            self.files.push(f);
        }
    }
}

const META_SPECS: &[&str] = &[
    "s1", "./s2", ".", "..", "~/hs", "$ORIGIN/../olib", "/@ROOT/abs1", "s1/deep", "~", "$ORIGIN",
];
const LIB_SPECS: &[&str] = &["L1", "../L2", "/@ROOT/L3", "~/hl", "$ORIGIN/../ol", ".", "~", "./L4/"];
const DEFAULT_LIBS: &[&str] = &["~/.jq", "$ORIGIN/../lib/jq", "$ORIGIN/../lib"];
/// places that are never searched: copies there must not be loaded
const DECOY_DIRS: &[&str] = &["w/nowhere", "home/.config", "opt", "w/~", "w/$ORIGIN", "s1"];

fn content(kind: &str, ident: &str, tag: &str) -> String {
    match kind {
        "data" => format!("\"{tag}\" 2\n"),
        _ => format!("def {ident}: \"{tag}\";\n"),
    }
}

fn gen_directive(g: &mut Gen, i: usize, parent_dir: &str, libs: &[String]) -> Directive {
    let rng = &mut *g.rng;
    let kind = *rng.pick(&["include", "import", "data", "include"]);
    let ext = if kind == "data" { "json" } else { "jq" };
    let stem = format!("m{i}");
    let name = match rng.usize(10) {
        0 | 1 | 2 | 3 => stem.clone(),
        4 | 5 => format!("{stem}.{ext}"),
        6 => format!("sub/{stem}"),
        7 => format!("./{stem}"),
        8 => format!("{stem}.v2"),
        _ => format!(".hid{i}"),
    };
    let n_meta = *rng.pick(&[0usize, 0, 1, 1, 2, 3]);
    let mut metas: Vec<&str> = Vec::new();
    for _ in 0..n_meta {
        metas.push(*rng.pick(META_SPECS));
    }
    let meta = match (metas.len(), rng.usize(4)) {
        (0, 0) => "{search: 1}".to_string(), // neither string nor array: nothing
        (0, 1) => "{version: 2}".to_string(),
        (0, _) => String::new(),
        (1, 0 | 1) => format!("{{search: \"{}\"}}", metas[0]),
        (_, _) => format!(
            "{{a: 1, search: [{}]}}",
            metas.iter().map(|m| format!("\"{m}\"")).collect::<Vec<_>>().join(", ")
        ),
    };
    let file = with_ext(&name, ext);
    let mut dirs: Vec<String> = metas.iter().map(|m| expand(m, parent_dir)).collect();
    dirs.extend(libs.iter().map(|l| expand(l, CWD)));
    let candidates: Vec<String> = dirs.iter().map(|d| lex_join(d, &file)).collect();
    let ident = format!("who{i}");
    let mut d = Directive {
        kind: kind.to_string(),
        name,
        meta,
        candidates,
        tags: BTreeMap::new(),
        absolute: false,
        ident,
    };
    // place copies in a subset of the candidate directories
    let mut distinct: Vec<String> = Vec::new();
    for c in &d.candidates {
        if !distinct.contains(c) {
            distinct.push(c.clone());
        }
    }
    for c in &distinct {
        let roll = g.rng.usize(12);
        match roll {
            0..=4 => {
                let tag = g.tag(c);
                g.put(FileSpec::file(c.clone(), content(kind, &d.ident, &tag), 0o644));
            }
            5 => {
                // a directory of that name is not a module
                g.put(FileSpec::dir(c.clone()));
            }
            6 => {
                // dangling symlink
                g.put(FileSpec::symlink(c.clone(), "no/such/target"));
            }
            7 => {
                // symlink to a real file elsewhere
                let tag = g.tag(&format!("via-symlink:{c}"));
                let real = format!("real/{i}-{}", g.tagn);
                g.put(FileSpec::file(real.clone(), content(kind, &d.ident, &tag), 0o644));
                g.put(FileSpec::symlink(c.clone(), format!("/@ROOT/{real}")));
            }
            8 => {
                // symlink loop
                g.put(FileSpec::symlink(c.clone(), c.rsplit('/').next().unwrap().to_string()));
            }
            _ => {}
        }
    }
    // record what each candidate announces
    for c in &distinct {
        if let Node::File(f) = resolve(&g.files, c, 0) {
            let text = String::from_utf8_lossy(&f.bytes.0);
            if let Some(t) = text.split('"').nth(1) {
                d.tags.insert(c.clone(), t.to_string());
            }
        }
    }
    // decoys: same file name in places that are not searched, and the *other* extension rule
    for dd in DECOY_DIRS {
        if g.rng.chance(1, 3) {
            let p = lex_join(dd, &file);
            if !d.candidates.contains(&p) {
                let tag = g.tag(&format!("DECOY:{p}"));
                g.put(FileSpec::file(p, content(kind, &d.ident, &tag), 0o644));
            }
        }
    }
    if d.name.ends_with(".v2") {
        // `m.v2` is asked for: `m.jq` / `m.json` next to it must not be taken instead
        for dir in dirs.iter() {
            if g.rng.chance(1, 2) {
                let p = lex_join(dir, &format!("m{i}.{ext}"));
                if !d.candidates.contains(&p) {
                    let tag = g.tag(&format!("DECOY-EXT:{p}"));
                    g.put(FileSpec::file(p, content(kind, &d.ident, &tag), 0o644));
                }
            }
        }
    }
    d
}

fn program(ds: &[Directive]) -> String {
    let mut s = String::new();
    let mut outs = Vec::new();
    for (i, d) in ds.iter().enumerate() {
        let meta = if d.meta.is_empty() { String::new() } else { format!(" {}", d.meta) };
        match d.kind.as_str() {
            "include" => {
                s.push_str(&format!("include \"{}\"{meta};\n", d.name));
                outs.push(d.ident.clone());
            }
            "import" => {
                s.push_str(&format!("import \"{}\" as q{i}{meta};\n", d.name));
                outs.push(format!("q{i}::{}", d.ident));
            }
            _ => {
                s.push_str(&format!("import \"{}\" as $v{i}{meta};\n", d.name));
                outs.push(format!("$v{i}"));
            }
        }
    }
    s.push_str(&format!("[{}]", outs.join(", ")));
    s
}

pub fn gen_case(rng: &mut Rng) -> Case {
    let scenario = match rng.usize(20) {
        0 | 1 => "cycle",
        2 | 3 => "diamond",
        4..=7 => "fault",
        8..=10 => "nested",
        _ => "lookup",
    };
    let mut g = Gen {
        rng,
        files: vec![
            FileSpec::dir(CWD),
            FileSpec::dir(HOME),
            FileSpec::dir("opt/lib/jq"),
            FileSpec::dir("w/progs"),
        ],
        tagn: 0,
    };
    let env = vec![
        ("HOME".to_string(), format!("/@ROOT/{HOME}")),
        ("PATH".to_string(), "/usr/bin".to_string()),
    ];
    // where the main program lives
    let (main_as, parent_dir): (Option<&str>, &str) = match g.rng.usize(4) {
        0 => (Some("progs/main.jq"), "w/progs"),
        1 => (Some("/@ROOT/pabs/main.jq"), "pabs"),
        2 => (Some("main.jq"), "w"),
        _ => (None, "w"),
    };
    // library paths
    let n_libs = *g.rng.pick(&[0usize, 0, 1, 2, 2, 3]);
    let mut libs: Vec<String> = Vec::new();
    for _ in 0..n_libs {
        libs.push(g.rng.pick(LIB_SPECS).to_string());
    }
    let mut argv: Vec<String> = vec!["-n".into(), "-c".into()];
    for l in &libs {
        match g.rng.usize(3) {
            0 => argv.extend(["-L".to_string(), l.clone()]),
            1 => argv.extend(["--library-path".to_string(), l.clone()]),
            _ => argv.extend(["-L".to_string(), l.clone()]),
        }
    }
    let eff_libs: Vec<String> = if libs.is_empty() {
        DEFAULT_LIBS.iter().map(|s| s.to_string()).collect()
    } else {
        // the defaults are not consulted when -L is given: plant decoys there later
        libs.clone()
    };
    let mut directives = Vec::new();
    let mut indegree = BTreeMap::new();
    let mut prog;
    match scenario {
        "cycle" => {
            // a -> b -> (c ->)? a, all next to each other in a searched directory
            let dir = expand(&eff_libs[0], CWD);
            let len = 2 + g.rng.usize(2);
            let names: Vec<String> = (0..len).map(|k| format!("cy{k}")).collect();
            for k in 0..len {
                let next = &names[(k + 1) % len];
                let how = if g.rng.chance(1, 2) {
                    format!("include \"{next}\" {{search: \".\"}};")
                } else {
                    format!("import \"{next}\" as nx {{search: \"./\"}};")
                };
                g.put(FileSpec::file(
                    lex_join(&dir, &format!("{}.jq", names[k])),
                    format!("{how}\ndef f{k}: {k};\n"),
                    0o644,
                ));
            }
            prog = format!("include \"cy0\"; f0");
            if g.rng.chance(1, 3) {
                // a module that includes itself
                g.put(FileSpec::file(
                    lex_join(&dir, "selfie.jq"),
                    "include \"selfie\" {search: \".\"};\ndef s: 1;\n",
                    0o644,
                ));
                prog = "include \"selfie\"; s".to_string();
            }
        }
        "nested" => {
            // modules that import data and other modules themselves: their directives are
            // resolved relative to *their* file, and each module sees only its own data
            let dir = expand(&eff_libs[0], CWD);
            let sub = *g.rng.pick(&["sub", "./data", "."]);
            let subdir = lex_join(&dir, sub);
            let n_mod_data = 1 + g.rng.usize(2);
            let mut header = String::new();
            let mut parts = Vec::new();
            let mut exp_mod = Vec::new();
            for k in 0..n_mod_data {
                let tag = g.tag(&format!("{subdir}/nd{k}.json"));
                g.put(FileSpec::file(lex_join(&subdir, &format!("nd{k}.json")), format!("\"{tag}\"\n"), 0o644));
                header.push_str(&format!("import \"nd{k}\" as $nd{k} {{search: \"{sub}\"}};\n"));
                parts.push(format!("$nd{k}"));
                exp_mod.push(format!("[\"{tag}\"]"));
                // same name relative to the cwd / the main program: must not be taken
                let decoy = lex_join(&lex_join(parent_dir, sub), &format!("nd{k}.json"));
                if decoy != lex_join(&subdir, &format!("nd{k}.json")) && g.rng.chance(1, 2) {
                    let t = g.tag(&format!("DECOY-CWD:{decoy}"));
                    g.put(FileSpec::file(decoy, format!("\"{t}\"\n"), 0o644));
                }
            }
            // a helper module next to it, found relative to the module file
            let leaf_tag = g.tag(&format!("{subdir}/leaf.jq"));
            g.put(FileSpec::file(lex_join(&subdir, "leaf.jq"), format!("def leaf: \"{leaf_tag}\";\ndef which: \"{leaf_tag}\";\n"), 0o644));
            header.push_str(&format!("include \"leaf\" {{search: \"{sub}\"}};\n"));
            g.put(FileSpec::file(
                lex_join(&dir, "na.jq"),
                format!("{header}def who_a: [{}, leaf, which];\n", parts.join(", ")),
                0o644,
            ));
            // the main program has data imports of its own, relative to its own location
            let n_main_data = 1 + g.rng.usize(2);
            let mut mh = String::new();
            let mut mparts = Vec::new();
            let mut exp_main = Vec::new();
            let before = g.rng.chance(1, 2);
            for k in 0..n_main_data {
                let tag = g.tag(&format!("main-data-{k}"));
                g.put(FileSpec::file(lex_join(&lex_join(parent_dir, "mdir"), &format!("md{k}.json")), format!("\"{tag}\" {k}\n"), 0o644));
                mh.push_str(&format!("import \"md{k}\" as $md{k} {{search: \"mdir\"}};\n"));
                mparts.push(format!("$md{k}"));
                exp_main.push(format!("[\"{tag}\",{k}]"));
            }
            // a *different* module of the same file name, found from the main program's side:
            // two files called leaf.jq are two modules (load-once is per file, not per name)
            let leafm_tag = g.tag(&format!("{}/mdir/leaf.jq", parent_dir));
            g.put(FileSpec::file(lex_join(&lex_join(parent_dir, "mdir"), "leaf.jq"), format!("def leafm: \"{leafm_tag}\";\ndef which: \"{leafm_tag}\";\n"), 0o644));
            let same_file = lex_join(&lex_join(parent_dir, "mdir"), "leaf.jq") == lex_join(&subdir, "leaf.jq");
            // ... and a third one in the library directory, asked for *without* metadata after the
            // other two have been loaded: it is found through the library paths, whatever was
            // loaded under that name before
            let lib_leaf = lex_join(&dir, "leaf.jq");
            let lib_distinct = lib_leaf != lex_join(&subdir, "leaf.jq") && lib_leaf != lex_join(&lex_join(parent_dir, "mdir"), "leaf.jq") && !same_file;
            let leafl_tag = g.tag(&lib_leaf);
            if lib_distinct {
                g.put(FileSpec::file(lib_leaf.clone(), format!("def leafl: \"{leafl_tag}\";\ndef which: \"{leafl_tag}\";\n"), 0o644));
            }
            let inc = "include \"na\";\n";
            let inc2 = if same_file { "" } else { "include \"leaf\" {search: \"mdir\"};\n" };
            let leafm = if same_file { "null".to_string() } else { "leafm".to_string() };
            // all three define `which`: inside `na` it is the one `na` included; in the main program
            // the one included last (asked for only when that is the library's, in either order)
            let (inc3, leafl) = if lib_distinct { ("include \"leaf\";\n", "leafl, which".to_string()) } else { ("", "null, null".to_string()) };
            prog = if before {
                format!("{mh}{inc}{inc2}{inc3}[who_a, {}, {leafm}, {leafl}]", mparts.join(", "))
            } else {
                format!("{inc2}{inc}{inc3}{mh}[who_a, {}, {leafm}, {leafl}]", mparts.join(", "))
            };
            let leafm_out = if same_file { "null".to_string() } else { format!("\"{leafm_tag}\"") };
            let leafl_out = if lib_distinct { format!("\"{leafl_tag}\",\"{leafl_tag}\"") } else { "null,null".to_string() };
            let expected = format!("[[{},\"{leaf_tag}\",\"{leaf_tag}\"],{},{leafm_out},{leafl_out}]\n", exp_mod.join(","), exp_main.join(","));
            directives.push(Directive {
                kind: "nested".into(),
                name: expected,
                meta: String::new(),
                candidates: vec![],
                tags: BTreeMap::new(),
                absolute: false,
                ident: String::new(),
            });
        }
        "diamond" => {
            // layers of two modules each; every module of a layer includes both of the next
            let dir = expand(&eff_libs[0], CWD);
            let depth = 2 + g.rng.usize(4);
            for l in 0..depth {
                for k in 0..2 {
                    let mut body = String::new();
                    if l + 1 < depth {
                        for k2 in 0..2 {
                            body.push_str(&format!(
                                "include \"d{}_{k2}\" {{search: \".\"}};\n",
                                l + 1
                            ));
                        }
                        body.push_str(&format!("def v{l}_{k}: v{}_0 + v{}_1;\n", l + 1, l + 1));
                    } else {
                        body.push_str(&format!("def v{l}_{k}: 1;\n"));
                    }
                    let p = lex_join(&dir, &format!("d{l}_{k}.jq"));
                    indegree.insert(p.clone(), if l == 0 { 1 } else { 2 });
                    g.put(FileSpec::file(p, body, 0o644));
                }
            }
            prog = "include \"d0_0\"; include \"d0_1\"; [v0_0, v0_1]".to_string();
        }
        _ => {
            let nd = 1 + g.rng.usize(3);
            for i in 0..nd {
                let d = gen_directive(&mut g, i, parent_dir, &eff_libs);
                directives.push(d);
            }
            if !libs.is_empty() {
                // decoys in the default library directories
                for d in directives.clone() {
                    if g.rng.chance(1, 2) {
                        let ext = if d.kind == "data" { "json" } else { "jq" };
                        let dir = expand(*g.rng.pick(DEFAULT_LIBS), CWD);
                        let p = lex_join(&dir, &with_ext(&d.name, ext));
                        if !d.candidates.contains(&p) {
                            let tag = g.tag(&format!("DECOY-DEFAULT:{p}"));
                            g.put(FileSpec::file(p, content(&d.kind, &d.ident, &tag), 0o644));
                        }
                    }
                }
            }
            if scenario == "lookup" && g.rng.chance(1, 10) {
                // an absolute path is refused even though the file is there
                let i = g.rng.usize(directives.len());
                let d = &mut directives[i];
                let ext = if d.kind == "data" { "json" } else { "jq" };
                let p = format!("absmods/m{i}.{ext}");
                let tag = format!("ABS:{p}");
                g.files.push(FileSpec::file(p.clone(), content(&d.kind, &d.ident, &tag), 0o644));
                d.name = format!("/@ROOT/absmods/m{i}");
                d.absolute = true;
            }
            prog = program(&directives);
        }
    }
    match main_as {
        Some(p) => {
            let rel = p.strip_prefix("/@ROOT/").map(|s| s.to_string()).unwrap_or(lex_join(CWD, p));
            g.put(FileSpec::file(rel, format!("{prog}\n"), 0o644));
            argv.push("-f".into());
            argv.push(p.to_string());
        }
        None => argv.push(prog.clone()),
    }
    let mut case = Case {
        files: g.files,
        argv,
        env,
        directives,
        scenario: scenario.to_string(),
        indegree,
        faults: vec![],
        faulted: None,
    };
    if scenario == "fault" {
        // aim a fault at the best-ranked existing candidate of one directive
        let with_match: Vec<usize> = (0..case.directives.len())
            .filter(|i| !matches(&case, &case.directives[*i]).is_empty())
            .collect();
        if let Some(&i) = with_match.first() {
            let target = matches(&case, &case.directives[i])[0].clone();
            // only plain files (a symlinked candidate is opened under its resolved name)
            let plain = case.files.iter().any(|f| f.path == target && f.kind == Kind::File);
            let shared = case
                .directives
                .iter()
                .enumerate()
                .any(|(j, d)| j != i && d.candidates.contains(&target));
            if plain && !shared {
                let (class, errs): (Class, &[i32]) = match rng.usize(3) {
                    0 => (Class::Open, &[libc::EACCES, libc::ENOENT, libc::EMFILE, libc::EIO]),
                    1 => (Class::Stat, &[libc::EACCES, libc::ENOENT, libc::ELOOP]),
                    _ => (Class::Read, &[libc::EIO, libc::EISDIR]),
                };
                case.faults.push(Fault {
                    at: At::Nth { class, obj: Obj::Path(target.clone()), n: 0, sticky: true },
                    kind: FaultKind::Fail(*rng.pick(errs)),
                    sig: None,
                });
                case.faulted = Some(target);
            }
        }
        if case.faulted.is_none() {
            case.scenario = "lookup".into();
        }
    }
    case
}

fn diamond_expect(case: &Case) -> Option<String> {
    // every v{l}_k = 2^(depth-1-l); output [v0_0, v0_1]
    let depth = case.indegree.len() / 2;
    let v = 1u64 << (depth - 1);
    Some(format!("[{v},{v}]\n"))
}

pub fn eval(case: &Case, wk: &mut Worker) -> Result<(Option<(String, String)>, History), Harness> {
    let h = wk.run(&case.world())?;
    let v = if case.scenario == "nested" {
        let out = String::from_utf8_lossy(&h.stdout.0).into_owned();
        let want = &case.directives[0].name;
        match h.exit {
            Exit::Exited(0) if &out == want => None,
            Exit::Hung => Some(("L0".into(), "run hung".into())),
            Exit::Signaled(s) => Some(("L0".into(), format!("process died with signal {s}"))),
            Exit::Exited(101) => Some(("L0".into(), "process panicked".into())),
            ref e => Some((
                "L1".into(),
                format!(
                    "a module's own include/data imports are resolved relative to that module's file and bound in that module only: exit {e:?}, stdout {out:?}, expected {want:?}; stderr {:?}",
                    String::from_utf8_lossy(&h.stderr.0).chars().take(300).collect::<String>()
                ),
            )),
        }
    } else if case.scenario == "diamond" {
        let out = String::from_utf8_lossy(&h.stdout.0).into_owned();
        match h.exit {
            Exit::Exited(0) if Some(&out) == diamond_expect(case).as_ref() => judge_loadonce(case, &h),
            Exit::Hung => Some(("L0".into(), "run hung".into())),
            ref e => Some((
                "L5".into(),
                format!(
                    "diamond of modules: exit {e:?}, stdout {out:?}, expected {:?}; stderr {:?}",
                    diamond_expect(case),
                    String::from_utf8_lossy(&h.stderr.0).chars().take(300).collect::<String>()
                ),
            )),
        }
    } else {
        judge(case, &h)
    };
    Ok((v, h))
}

fn judge_loadonce(case: &Case, h: &History) -> Option<(String, String)> {
    for (p, deg) in &case.indegree {
        let want = format!("/@ROOT/{p}");
        let opens = h
            .ops
            .iter()
            .filter(|o| o.class == Class::Open && o.ret >= 0 && o.path.as_deref() == Some(&want))
            .count() as u32;
        if opens > *deg {
            return Some((
                "L4".into(),
                format!("{p} was opened {opens} times although only {deg} directives refer to it (a module reached by several routes is loaded once)"),
            ));
        }
    }
    None
}

fn fingerprint(case: &Case, class: &str) -> BTreeMap<String, String> {
    let mut m = BTreeMap::new();
    m.insert("scenario".into(), case.scenario.clone());
    let ext_given = case.directives.iter().any(|d| d.name.ends_with(".v2"));
    m.insert("ext_given".into(), ext_given.to_string());
    m.insert("class".into(), class.to_string());
    m
}

fn shrink_candidates(case: &Case) -> Vec<Case> {
    let mut out = Vec::new();
    if case.scenario == "cycle" || case.scenario == "diamond" || case.scenario == "nested" {
        return out;
    }
    // drop a directive (re-rendering the program)
    if case.directives.len() > 1 {
        for i in 0..case.directives.len() {
            let mut c = case.clone();
            c.directives.remove(i);
            let prog = program(&c.directives);
            set_program(&mut c, &prog);
            out.push(c);
        }
    }
    // drop files that no directive can see
    for (i, f) in case.files.iter().enumerate() {
        if f.kind != Kind::Dir && !f.path.ends_with("main.jq") && !case.directives.iter().any(|d| d.tags.contains_key(&f.path)) {
            let mut c = case.clone();
            c.files.remove(i);
            out.push(c);
        }
    }
    out
}

fn set_program(c: &mut Case, prog: &str) {
    if let Some(i) = c.argv.iter().position(|a| a == "-f") {
        let p = c.argv[i + 1].clone();
        let rel = p.strip_prefix("/@ROOT/").map(|s| s.to_string()).unwrap_or(lex_join(CWD, &p));
        if let Some(f) = c.files.iter_mut().find(|f| f.path == rel) {
            f.bytes = Blob(format!("{prog}\n").into_bytes());
        }
    } else if let Some(last) = c.argv.last_mut() {
        *last = prog.to_string();
    }
}

fn minimise(case: &Case, class: &str, wk: &mut Worker) -> (Case, u32) {
    let mut cur = case.clone();
    let mut steps = 0;
    let mut budget = 40;
    'outer: loop {
        for cand in shrink_candidates(&cur) {
            if budget == 0 {
                break 'outer;
            }
            budget -= 1;
            if let Ok((Some((c, _)), _)) = eval(&cand, wk) {
                if c == class {
                    cur = cand;
                    steps += 1;
                    continue 'outer;
                }
            }
        }
        break;
    }
    (cur, steps)
}

pub fn check(cfg: &Cfg) -> Result<i32, Harness> {
    let started = std::time::Instant::now();
    let n = cfg.n(600, 15_000);
    let idx: Vec<u64> = (0..n as u64).collect();
    struct Out {
        viol: Option<Violation>,
        tally: Tally,
        key: Option<String>,
        sample: Option<serde_json::Value>,
    }
    let results: Vec<Result<Out, Harness>> = par_map(
        &idx,
        cfg.simos_workers,
        |k| Worker::new(cfg, k),
        |wk, _, &i| {
            let wk = wk.as_mut().map_err(|e| Harness(e.0.clone()))?;
            wk.tally = Tally::default();
            let mut rng = Rng::for_run(cfg.seed, ID, i);
            let case = gen_case(&mut rng);
            let (v, h) = eval(&case, wk)?;
            record_digest(i, h.digest());
            if std::env::var("VF_TRACE_DUMP").ok().and_then(|s| s.parse::<u64>().ok()) == Some(i) {
                for o in &h.ops {
                    eprintln!("DUMP {:?} {} ret={} inj={:?}", o.seq, o.sig(), o.ret, o.injected);
                }
                eprintln!("DUMP exit={:?} stdout={:?} stderr={:?}", h.exit, String::from_utf8_lossy(&h.stdout.0), String::from_utf8_lossy(&h.stderr.0));
                for (p, f) in &h.files_after {
                    eprintln!("DUMP file {p} {:?} {} {:o}", f.kind, f.bytes.0.len(), f.mode);
                }
            }
            let mut tally = Tally::default();
            tally.add(format!("runs:{}", case.scenario));
            for f in &h.fired {
                tally.add(format!("fired:{}", f.split(' ').nth(1).unwrap_or("?")));
            }
            // reach probes
            let mut winners = Vec::new();
            for d in &case.directives {
                let m = matches(&case, d);
                if m.len() >= 2 {
                    tally.add("reach:file_in_two_or_more_places");
                }
                if let Some(f) = m.first() {
                    let pos = d.candidates.iter().position(|c| c == *f).unwrap_or(0);
                    winners.push(pos.to_string());
                    if pos > 0 {
                        tally.add("reach:winner_not_first_candidate");
                    }
                    if case.files.iter().any(|x| &x.path == *f && matches!(x.kind, Kind::Symlink(_))) {
                        tally.add("reach:winner_via_symlink");
                    }
                } else {
                    winners.push("-".into());
                }
                if d.name.ends_with(".v2") {
                    tally.add("reach:extension_given");
                }
                if d.absolute {
                    tally.add("reach:absolute_refused");
                }
                if d.meta.contains('~') || d.meta.contains("$ORIGIN") {
                    tally.add("reach:meta_with_expansion");
                }
            }
            if case.argv.iter().any(|a| a == "-f") {
                tally.add("reach:main_from_file");
            }
            if !case.argv.iter().any(|a| a == "-L" || a == "--library-path") {
                tally.add("reach:default_library_paths");
            }
            if matches!(h.exit, Exit::Exited(3)) {
                tally.add("reach:exit3");
            }
            if case.faulted.is_some() && matches!(h.exit, Exit::Exited(0)) {
                tally.add("reach:fault_then_next_candidate");
            }
            let key = format!(
                "{}|{}|{}|{:?}",
                case.scenario,
                case.directives
                    .iter()
                    .map(|d| format!("{}:{}:{}", d.kind, d.name, d.meta))
                    .collect::<Vec<_>>()
                    .join(";"),
                winners.join(","),
                h.exit
            );
            let nontrivial = case.scenario != "lookup"
                || case.directives.iter().any(|d| !matches(&case, d).is_empty());
            let viol = v.map(|(class, detail)| {
                let (m, steps) = minimise(&case, &class, wk);
                Violation {
                    property: ID.into(),
                    fingerprint: fingerprint(&case, &class),
                    class,
                    detail,
                    case: serde_json::to_value(&m).unwrap(),
                    seed: cfg.seed,
                    run: i,
                    minimised_steps: steps,
                }
            });
            let sample = (i < 4).then(|| {
                json!({"argv": case.argv, "scenario": case.scenario,
                       "directives": case.directives.iter().map(|d| json!({"kind": d.kind, "name": d.name, "meta": d.meta, "candidates": d.candidates, "existing": d.tags})).collect::<Vec<_>>(),
                       "exit": format!("{:?}", h.exit), "stdout": String::from_utf8_lossy(&h.stdout.0)})
            });
            tally.merge(&wk.tally);
            Ok(Out { viol, tally, key: nontrivial.then_some(key), sample })
        },
    );
    let mut tally = Tally::default();
    let mut keys = BTreeSet::new();
    let mut violations = Vec::new();
    let mut samples = Vec::new();
    let mut evaluations = 0u64;
    for r in results {
        let o = r?;
        evaluations += 1;
        tally.merge(&o.tally);
        if let Some(k) = o.key {
            keys.insert(k);
        }
        if let Some(v) = o.viol {
            violations.push(v);
        }
        if let Some(s) = o.sample {
            samples.push(s);
        }
    }
    let pick = |p: &str| -> BTreeMap<String, u64> {
        tally.0.iter().filter(|(k, _)| k.starts_with(p)).map(|(k, v)| (k[p.len()..].to_string(), *v)).collect()
    };
    let ev = Evidence {
        property: ID,
        level: "exploration",
        coverage: json!({
            "evaluations": evaluations,
            "distinct_nontrivial": keys.len(),
            "rule": "each run builds a file tree and an invocation: main program inline or in a file (cwd, sub-directory, absolute), 0-3 -L/--library-path entries (relative, .., absolute, ~, $ORIGIN) or the defaults, 1-3 include/import/data-import directives with names (bare, with extension, with a foreign extension, sub-directory, hidden) and search metadata (string, array, non-string, ~, $ORIGIN, ., ..); copies of each module announcing their own location are placed in a random subset of the candidate directories as files, directories, dangling/looping/valid symlinks, plus decoys in directories that must not be searched; scenarios: lookup, cycle (2-3 modules or self-include), diamond (layers of mutually shared modules; opens per file bounded by its in-degree), fault (open/stat/read of the best-ranked candidate fails: status 3 or the next candidate, nothing else). distinct = distinct (scenario, directives, winning candidate positions, exit); trivial = a lookup in which no directive has any existing candidate.",
            "runs_by_scenario": pick("runs:"),
            "faults_fired": pick("fired:"),
            "reach_probes": pick("reach:"),
            "steps": tally.get("steps"),
            "real_vs_stub": {"real": ["jaq binary from /repo working tree", "libc", "kernel fs (private directory; HOME, $ORIGIN, cwd inside it)"], "model": ["60-line candidate-order model in vf/src/checks/c16.rs"], "simulated": ["file tree", "environment", "open/stat/read failures on a chosen candidate"]},
            "samples": samples,
        }),
        assumptions: vec![
            "only the look-up sentence and the load-once clause of C16 are decided here; 'modular = inlined' is a pure function and not claimed".into(),
            "an unreadable better-ranked candidate may either be reported (status 3) or skipped".into(),
        ],
    };
    finish(cfg, ev, violations, started)
}

pub fn replay(cfg: &Cfg, v: &Violation) -> Result<Option<(String, String)>, Harness> {
    let case: Case = serde_json::from_value(v.case.clone())?;
    let mut wk = Worker::new(cfg, 0)?;
    let (viol, _) = eval(&case, &mut wk)?;
    Ok(viol)
}
