//! C06 — filters and data cannot make jaq touch files, network or other processes.
//! Engine: simos as a policy monitor over the complete system-call history of the real binary
//! in a world with honeypot files; a small hard stratum makes the time-zone database unreadable.
use crate::common::*;
use crate::par::par_map;
use crate::rng::Rng;
use crate::worker::Worker;
use serde::{Deserialize, Serialize};
use serde_json::json;
use simos::*;
use std::collections::{BTreeMap, BTreeSet};

pub const ID: &str = "C06";
const CWD: &str = "w";

#[derive(Clone, Debug, Serialize, Deserialize)]
pub struct Case {
    pub files: Vec<FileSpec>,
    pub argv: Vec<String>,
    pub env: Vec<(String, String)>,
    pub stdin: Blob,
    #[serde(default)]
    pub faults: Vec<Fault>,
    /// "natives" | "decoder" | "module" | "inplace"
    pub kind: String,
    /// root-relative files the invocation names (command line, directives): may be read
    pub allowed: Vec<String>,
    /// root-relative files that `--in-place` may replace
    #[serde(default)]
    pub inplace: Vec<String>,
    /// for `natives`: the individual call expressions of the batch
    #[serde(default)]
    pub calls: Vec<String>,
    /// argv prefix shared by the batch and by each individual call (everything but the program)
    #[serde(default)]
    pub argv_prefix: Vec<String>,
    /// standard output is a terminal
    #[serde(default)]
    pub tty: bool,
}

impl Case {
    pub fn world(&self) -> World {
        World {
            files: self.files.clone(),
            cwd: CWD.into(),
            env: self.env.clone(),
            argv: self.argv.clone(),
            stdin: Stdin { bytes: self.stdin.clone(), ..Default::default() },
            faults: self.faults.clone(),
            mount_boundary: false,
            entropy: 11,
            umask: None,
            stdout_tty: self.tty,
        }
    }
}

/// Paths outside the sandbox that any run of this binary touches while starting up.
#[derive(Clone, Debug, Default, Serialize, Deserialize)]
pub struct Startup(pub BTreeSet<String>);

const TZ_PREFIXES: &[&str] = &[
    "/usr/share/zoneinfo",
    "/usr/lib/zoneinfo",
    "/usr/share/lib/zoneinfo",
    "/etc/zoneinfo",
    "/etc/localtime",
    "/etc/timezone",
];
/// allocator / runtime look-ups that may happen lazily (read-only)
const RUNTIME_EXACT: &[&str] = &[
    "/proc/self/maps",
    "/proc/sys/vm/overcommit_memory",
    "/sys/kernel/mm/transparent_hugepage/enabled",
    "/proc/meminfo",
    "/proc/self/exe",
];
const RUNTIME_PREFIXES: &[&str] = &["/sys/devices/system/node", "/sys/devices/system/cpu"];

pub fn startup(cfg: &Cfg, env: &[(String, String)]) -> Result<Startup, Harness> {
    let mut wk = Worker::new(cfg, 99)?;
    let w = World {
        files: vec![FileSpec::dir(CWD)],
        cwd: CWD.into(),
        env: env.to_vec(),
        argv: vec!["-n".into(), "empty".into()],
        ..Default::default()
    };
    let h = wk.run(&w)?;
    if h.exit != Exit::Exited(0) {
        return Err(Harness(format!("start-up probe `jaq -n empty` ended with {:?}", h.exit)));
    }
    let mut s = BTreeSet::new();
    for o in &h.ops {
        for p in [&o.path, &o.path2].into_iter().flatten() {
            if !p.starts_with(ROOT_TOKEN) {
                s.insert(p.clone());
            }
        }
    }
    Ok(Startup(s))
}

fn is_honey(p: &str) -> bool {
    p.contains("/honey/") || p.ends_with("/honey") || p == "/etc/passwd" || p == "/etc/shadow" || p == "/etc/hostname"
}

fn dir_of(p: &str) -> &str {
    p.rsplit_once('/').map_or("", |x| x.0)
}

pub fn judge(case: &Case, su: &Startup, h: &History) -> Option<(String, String)> {
    let v = |c: &str, d: String| Some((c.to_string(), d));
    let allowed: BTreeSet<String> = case.allowed.iter().map(|p| format!("{ROOT_TOKEN}/{p}")).collect();
    let inplace: BTreeSet<String> = case.inplace.iter().map(|p| format!("{ROOT_TOKEN}/{p}")).collect();
    let inplace_dirs: BTreeSet<&str> = inplace.iter().map(|p| dir_of(p)).collect();
    let scratch = simos::tracer::scratch_base().to_string_lossy().into_owned();
    let is_ancestor_of_allowed = |p: &str| {
        allowed.iter().any(|a| a == p || a.starts_with(&format!("{p}/")))
            || p == ROOT_TOKEN
            // directories above the sandbox: ancestors of every path the invocation names
            || p.starts_with(&format!("{ROOT_TOKEN}^"))
            || format!("{ROOT_TOKEN}/{CWD}") == p
    };
    let outside_ok = |p: &str| {
        su.0.contains(p)
            || TZ_PREFIXES.iter().any(|t| p == *t || p.starts_with(&format!("{t}/")))
            // other well-known homes of the system time-zone database (Android's bundles, ...)
            || p.contains("/zoneinfo") || p.contains("tzdata")
            || RUNTIME_EXACT.contains(&p)
            || RUNTIME_PREFIXES.iter().any(|t| p.starts_with(t))
    };
    let is_inplace_tmp = |p: &str| {
        let name = p.rsplit('/').next().unwrap_or(p);
        (simos::tracer::is_tmp_name(name) || name == "jaq??????") && inplace_dirs.contains(dir_of(p))
    };
    for o in &h.ops {
        let what = || {
            format!(
                "{}({}{}) = {}",
                o.name,
                o.path.as_deref().or(o.obj.as_deref()).unwrap_or("-"),
                o.path2.as_deref().map(|p| format!(", {p}")).unwrap_or_default(),
                o.ret
            )
        };
        if o.class == Class::Forbidden {
            return v("P1", format!("attempted {}: network / process / kernel interface", what()));
        }
        // honeypots: no access of any kind
        for p in [&o.path, &o.path2, &o.obj].into_iter().flatten() {
            if is_honey(p) && !su.0.contains(p.as_str()) {
                return v("P3", format!("a path that occurs only in data or filter arguments was accessed: {}", what()));
            }
        }
        let mutating = match o.class {
            Class::Open => o.writes_flags(),
            Class::Rename | Class::Unlink | Class::Link | Class::Mkdir => true,
            Class::Mode => o.path.is_some() || o.obj.as_deref().is_some_and(|x| !matches!(x, "stdin" | "stdout" | "stderr")),
            _ => false,
        };
        if mutating {
            let targets: Vec<&String> = [&o.path, &o.path2].into_iter().flatten().collect();
            let target_obj = o.obj.as_ref();
            let ok = !targets.is_empty()
                && targets.iter().all(|p| inplace.contains(*p) || is_inplace_tmp(p))
                || targets.is_empty()
                    && target_obj.is_some_and(|p| inplace.contains(p) || is_inplace_tmp(p));
            // a symlink "target" (path2 of symlink) is not a path being modified, but symlinks are
            // never legitimate anyway
            if !ok {
                return v("P2", format!("file-system mutation: {} (flags {:#o})", what(), o.flags));
            }
            continue;
        }
        match o.class {
            Class::Open => {
                let Some(p) = &o.path else { continue };
                if p.starts_with(ROOT_TOKEN) {
                    if !(allowed.contains(p) || inplace.contains(p)) {
                        return v("P4", format!("opened a file that the invocation does not name: {}", what()));
                    }
                } else if !outside_ok(p) {
                    return v("P4", format!("opened a file outside the invocation: {}", what()));
                }
            }
            Class::Stat | Class::Dirent => {
                let Some(p) = &o.path else { continue };
                if p.starts_with(ROOT_TOKEN) {
                    let ok = is_ancestor_of_allowed(p)
                        || inplace.contains(p)
                        || inplace_dirs.contains(p.as_str())
                        || is_inplace_tmp(p);
                    if !ok {
                        return v("P4", format!("examined a path that the invocation does not name: {}", what()));
                    }
                } else if !outside_ok(p) && !outside_ok(dir_of(p)) && o.ret >= 0 && !scratch.starts_with(&format!("{p}/")) {
                    return v("P4", format!("examined a path outside the invocation: {}", what()));
                }
            }
            _ => {}
        }
    }
    // end state: nothing appeared, vanished or changed (catches effects through unknown calls)
    let before: BTreeMap<&str, &FileSpec> = case.files.iter().map(|f| (f.path.as_str(), f)).collect();
    for (p, st) in &h.files_after {
        match before.get(p.as_str()) {
            Some(spec) => {
                if case.inplace.contains(p) {
                    continue;
                }
                if spec.kind == Kind::File && (st.kind != Kind::File || st.bytes != spec.bytes || st.mode != spec.mode) {
                    return v("P5", format!("{p} was modified"));
                }
            }
            None => {
                let implied = st.kind == Kind::Dir
                    && (case.files.iter().any(|f| f.path.starts_with(&format!("{p}/"))) || p == CWD || p == "opt" || p == "opt/bin");
                if !implied {
                    return v("P5", format!("{p} appeared"));
                }
            }
        }
    }
    for f in &case.files {
        if !h.files_after.contains_key(&f.path) {
            return v("P5", format!("{} disappeared", f.path));
        }
    }
    None
}

// -----------------------------------------------------------------------------------------
// the workload

/// (name, arity) of every filter the tree defines: natives of the library crates, natives only
/// the binary adds (scanned from its sources), and the jq-coded definitions.
pub fn discover(cfg: &Cfg) -> Vec<(String, usize)> {
    let mut v: Vec<(String, usize)> = Vec::new();
    for (name, args, _) in jaq_all::data::funs() {
        v.push((name.to_string(), args.len()));
    }
    for d in jaq_all::defs() {
        v.push((d.name.to_string(), d.args.len()));
    }
    // natives of the binary crate: ("name", v(n), ...)
    let dir = cfg.repo.join("jaq/src");
    if let Ok(rd) = std::fs::read_dir(&dir) {
        let mut files: Vec<_> = rd.flatten().map(|e| e.path()).filter(|p| p.extension().is_some_and(|e| e == "rs")).collect();
        files.sort();
        for f in files {
            let Ok(text) = std::fs::read_to_string(&f) else { continue };
            let mut rest = text.as_str();
            while let Some(i) = rest.find("(\"") {
                rest = &rest[i + 2..];
                let Some(j) = rest.find('"') else { break };
                let name = &rest[..j];
                let after = rest[j + 1..].trim_start();
                if let Some(a) = after.strip_prefix(',') {
                    let a = a.trim_start();
                    if let Some(n) = a.strip_prefix("v(") {
                        if let Some(k) = n.find(')') {
                            if let Ok(ar) = n[..k].trim().parse::<usize>() {
                                v.push((name.to_string(), ar));
                            }
                        }
                    }
                }
            }
        }
    }
    let ident = |s: &str| {
        let s = s.strip_prefix('@').unwrap_or(s);
        !s.is_empty()
            && s.chars().next().is_some_and(|c| c.is_ascii_alphabetic() || c == '_')
            && s.chars().all(|c| c.is_ascii_alphanumeric() || c == '_')
    };
    v.retain(|(n, _)| ident(n) && n != "repl");
    v.sort();
    v.dedup();
    v
}

/// Names of the environment variables the tree's own sources read (`var("X")`, `var_os("X")`),
/// found by scanning them at run time: configuration is a way in for commands and paths too.
pub fn discover_env(cfg: &Cfg) -> Vec<String> {
    fn walk(dir: &std::path::Path, out: &mut Vec<std::path::PathBuf>) {
        let Ok(rd) = std::fs::read_dir(dir) else { return };
        let mut es: Vec<_> = rd.flatten().map(|e| e.path()).collect();
        es.sort();
        for p in es {
            if p.is_dir() {
                walk(&p, out);
            } else if p.extension().is_some_and(|e| e == "rs") {
                out.push(p);
            }
        }
    }
    let mut files = Vec::new();
    for c in ["jaq", "jaq-core", "jaq-std", "jaq-json", "jaq-fmts", "jaq-all"] {
        walk(&cfg.repo.join(c).join("src"), &mut files);
    }
    let mut names = Vec::new();
    for f in files {
        let Ok(text) = std::fs::read_to_string(&f) else { continue };
        for pat in ["var(\"", "var_os(\"", "var(\n", "var_os(\n"] {
            let mut rest = text.as_str();
            while let Some(i) = rest.find(pat) {
                rest = &rest[i + pat.len()..];
                let r = rest.trim_start().trim_start_matches('"');
                let name: String = r.chars().take_while(|c| c.is_ascii_alphanumeric() || *c == '_').collect();
                if name.len() >= 2 && name.chars().all(|c| c.is_ascii_uppercase() || c.is_ascii_digit() || c == '_') && r[name.len()..].starts_with('"') {
                    names.push(name);
                }
            }
        }
    }
    names.sort();
    names.dedup();
    names
}

const HOSTILE: &[&str] = &[
    "/@ROOT/honey/secret.txt",
    "file:///@ROOT/honey/secret.txt",
    "../honey/secret.txt",
    "http://127.0.0.1:9/x",
    "$(touch /@ROOT/honey/pwned)",
    "|touch /@ROOT/honey/pwned2",
    "`touch /@ROOT/honey/pwned3`",
    "/@ROOT/honey/newfile",
    "/etc/passwd",
    "../../../../../../../../etc/passwd",
    "../../../@ROOT/honey/tzfile",
    "; rm -rf /@ROOT/honey",
    "/@ROOT/honey",
    "%Q /@ROOT/honey/tzfile",
    "%Z",
    "%c %Q",
    // program-like strings: a filter that evaluates, compiles or loads text must not reach files
    "import \"secret\" as $d {search: \"/@ROOT/honey\"}; $d",
    "include \"mod\" {search: \"/@ROOT/honey\"}; stolen",
    "import \"mod\" as m {search: [\"/@ROOT/honey\", \"../honey\"]}; m::stolen",
    "include \"/@ROOT/honey/mod\"; .",
    "input_filename, $__prog_args, env, (\"/@ROOT/honey/secret.txt\" | input)",
    "-L /@ROOT/honey -f /@ROOT/honey/mod.jq",
];

const XML_DOCS: &[&str] = &[
    "<?xml version=\"1.0\"?><!DOCTYPE foo [<!ENTITY xxe SYSTEM \"file:///@ROOT/honey/secret.txt\"><!ENTITY e2 SYSTEM \"/@ROOT/honey/secret.txt\">]><a>&xxe;&e2;</a>\n",
    "<!DOCTYPE foo SYSTEM \"/@ROOT/honey/ext.dtd\"><a/>\n",
    "<?xml-stylesheet href=\"/@ROOT/honey/secret.txt\"?><a xmlns:xi=\"http://www.w3.org/2001/XInclude\"><xi:include href=\"/@ROOT/honey/secret.txt\" parse=\"text\"/></a>\n",
    "<!DOCTYPE a [<!ENTITY % p SYSTEM \"http://127.0.0.1:9/evil.dtd\"> %p;]><a/>\n",
    "<!DOCTYPE a PUBLIC \"-//X//Y\" \"file:///@ROOT/honey/ext.dtd\"><a href=\"/@ROOT/honey/secret.txt\">t</a>\n",
];
const YAML_DOCS: &[&str] = &[
    "!!python/object/apply:os.system [\"touch /@ROOT/honey/pwned\"]\n",
    "a: !include /@ROOT/honey/secret.txt\nb: !!binary aGk=\n",
    "--- !<tag:yaml.org,2002:python/name:os.system> \"touch /@ROOT/honey/pwned\"\n",
    "base: &b {p: \"/@ROOT/honey/secret.txt\"}\nd:\n  <<: *b\n  q: *b\n",
    "%TAG !e! tag:example.com,2000:app/\n--- !e!load \"/@ROOT/honey/secret.txt\"\n",
    "? !!set {\"/@ROOT/honey/secret.txt\"}\n: !!omap [a: 1]\n",
];
const TOML_DOCS: &[&str] = &[
    "include = \"/@ROOT/honey/secret.txt\"\n[import]\npath = \"file:///@ROOT/honey/secret.txt\"\n",
];
const CSV_DOCS: &[&str] = &["=cmd|' /C calc'!A0,/@ROOT/honey/secret.txt\n/@ROOT/honey/newfile,\"|touch x\"\n"];
const JSON_DOCS: &[&str] = &[
    "{\"$ref\": \"file:///@ROOT/honey/secret.txt\", \"path\": \"/@ROOT/honey/secret.txt\", \"cmd\": \"$(touch /@ROOT/honey/pwned)\"}\n\"/@ROOT/honey/newfile\"\n",
    "{\"t\": \"a\", \"a\": {\"href\": \"/@ROOT/honey/secret.txt\"}, \"c\": [\"x\", {\"t\": \"xi:include\", \"a\": {\"href\": \"/@ROOT/honey/secret.txt\"}}]}\n",
];

fn cbor_docs() -> Vec<Vec<u8>> {
    let text = |s: &str| {
        let mut v = Vec::new();
        let b = s.as_bytes();
        if b.len() < 24 {
            v.push(0x60 + b.len() as u8);
        } else {
            v.push(0x78);
            v.push(b.len() as u8);
        }
        v.extend_from_slice(b);
        v
    };
    let uri = "file:///@ROOT/honey/secret.txt";
    let mut d1 = vec![0xd8, 0x20];
    d1.extend(text(uri)); // tag 32: URI
    let mut d2 = vec![0xd8, 0x18, 0x58, 0x03, 0xd8, 0x20, 0x60]; // tag 24: embedded CBOR
    d2.extend(text("/@ROOT/honey/newfile"));
    let mut d3 = vec![0xd9, 0xd9, 0xf7, 0xa1]; // self-described, map
    d3.extend(text("path"));
    d3.extend(text(uri));
    vec![d1, d2, d3]
}

/// Files whose first bytes look like something else (compressed data, archives, executables,
/// scripts): content sniffing must not make jaq call a helper program or open anything.
fn magic_docs() -> Vec<Vec<u8>> {
    let tail = b"{\"a\": \"/@ROOT/honey/secret.txt\"}\n".to_vec();
    let heads: [&[u8]; 10] = [
        &[0x1f, 0x8b, 0x08, 0x00, 0, 0, 0, 0, 0, 3],
        b"PK\x03\x04\x14\x00",
        b"BZh91AY&SY",
        &[0xfd, b'7', b'z', b'X', b'Z', 0x00],
        &[0x28, 0xb5, 0x2f, 0xfd],
        b"\x7fELF\x02\x01\x01",
        b"#!/bin/sh\ntouch /@ROOT/honey/pwned\n",
        b"%PDF-1.4\n",
        b"SQLite format 3\x00",
        &[0xef, 0xbb, 0xbf],
    ];
    heads.iter().map(|h| h.iter().copied().chain(tail.iter().copied()).collect()).collect()
}

fn base_files() -> Vec<FileSpec> {
    vec![
        FileSpec::dir(CWD),
        FileSpec::dir("home"),
        // where temporary files would go (kept inside the world)
        FileSpec::dir("tmp"),
        FileSpec::file("honey/secret.txt", "TOP SECRET\n", 0o644),
        FileSpec::file("honey/ext.dtd", "<!ENTITY x \"y\">\n", 0o644),
        FileSpec::file("honey/tzfile", "TZif2\0\0\0", 0o644),
        FileSpec::file("honey/secret.json", "\"TOP SECRET\"\n", 0o644),
        FileSpec::file("honey/mod.jq", "def stolen: \"TOP SECRET\";\n", 0o644),
    ]
}

fn base_env(rng: &mut Rng) -> Vec<(String, String)> {
    let mut env = vec![
        ("HOME".to_string(), "/@ROOT/home".to_string()),
        ("PATH".to_string(), "/usr/bin:/bin".to_string()),
        ("SHELL".to_string(), "/bin/sh".to_string()),
        ("TMPDIR".to_string(), "/@ROOT/tmp".to_string()),
        ("EDITOR".to_string(), "touch /@ROOT/honey/edited".to_string()),
        ("PAGER".to_string(), "touch /@ROOT/honey/paged".to_string()),
    ];
    match rng.usize(4) {
        0 => env.push(("TZ".into(), "Europe/Vienna".into())),
        1 => env.push(("TZ".into(), "UTC".into())),
        _ => {}
    }
    env
}

fn call_expr(name: &str, arity: usize, rng: &mut Rng, nh: usize) -> String {
    let input = match rng.usize(8) {
        0 => "$hobj".to_string(),
        1 => "[$hobj, $h0]".to_string(),
        _ => format!("$h{}", rng.usize(nh)),
    };
    let args: Vec<String> = (0..arity)
        .map(|_| match rng.usize(8) {
            0 => "$doc".to_string(),
            1 => "$hobj".to_string(),
            _ => format!("$h{}", rng.usize(nh)),
        })
        .collect();
    let call = if arity == 0 {
        name.to_string()
    } else {
        format!("{name}({})", args.join("; "))
    };
    let input = if rng.chance(1, 6) { "$doc".to_string() } else { input };
    format!("(try (limit(3; {input} | {call}) | 0) catch 1)")
}

/// Calls aimed at the one facility that is allowed to read files during execution - the
/// time-zone look-up of the local-time and zone-name filters: zone names and formats taken from
/// data must not steer it outside the database.
const DIRECTED: &[&str] = &[
    "(try (\"2024-01-02T03:04:05 ../../..$root/honey/tzfile\" | strptime(\"%Y-%m-%dT%H:%M:%S %Q\") | 0) catch 1)",
    "(try (\"2024-01-02T03:04:05 ../../..$root/honey/secret.txt\" | strptime(\"%Y-%m-%dT%H:%M:%S %:Q\") | 0) catch 1)",
    "(try (\"03:04 ../../../../../../../../etc/passwd\" | strptime(\"%H:%M %Q\") | 0) catch 1)",
    "(try (\"2024-01-02 $root/honey/tzfile\" | strptime(\"%Y-%m-%d %Q\") | 0) catch 1)",
    "(try (\"2024-01-02 Europe/../../../..$root/honey/tzfile\" | strptime(\"%Y-%m-%d %Q\") | 0) catch 1)",
    "(try (\"2024-01-02 ../../..$root/honey/tzfile\" | strptime(\"%Y-%m-%d %Z\") | 0) catch 1)",
    "(try (0 | strftime(\"%Q ../../..$root/honey/tzfile\") | 0) catch 1)",
    "(try (0 | strflocaltime(\"%Z %Q $root/honey/tzfile\") | 0) catch 1)",
    "(try ([2024, 0, 2, 3, 4, 5, 0, 0, \"../../..$root/honey/tzfile\"] | mktime | 0) catch 1)",
    "(try (\"2024-01-02T03:04:05[../../..$root/honey/tzfile]\" | fromdate | 0) catch 1)",
];

/// Programs whose run ends other than by running out of outputs. Some rely on defects of the
/// tree at hand (a panic in `match`, in string repetition); where the tree handles them they are
/// simply further ordinary programs.
const ABEND: &[&str] = &[
    "\"ba\" | [match(\"((a)|(b))+\")]",
    "\"ba\" | [match(\"(?:(a)|(b))*\")]",
    ".a * .n",
    "\"ab\" * 9223372036854775807",
    "def f: 1 + f; f",
    "def f: [f]; f",
    "error({\"path\": \"/@ROOT/honey/newfile\"})",
    ". as [$a] | $a",
    "\"x\" | halt_error(7)",
    ".a | halt_error",
    "., input",
    "[limit(200000; repeat(.a))] | add | error",
    "range(1000000) | tostring",
];

fn batch_program(calls: &[String]) -> String {
    format!("[{}] | length", calls.join(",\n "))
}

pub fn gen_case(rng: &mut Rng, filters: &[(String, usize)], env_names: &[String]) -> Case {
    let mut files = base_files();
    let mut env = base_env(rng);
    let kind = match rng.usize(22) {
        0..=9 => "natives",
        10..=15 => "decoder",
        16 | 17 => "module",
        18 | 19 => "inplace",
        _ => "abend",
    };
    let mut allowed = Vec::new();
    // TZ is configuration, not data: a value that is no zone of the database may be tried as a path
    if let Some((_, tz)) = env.iter().find(|(k, _)| k == "TZ") {
        allowed.push(format!("{CWD}/{tz}"));
    }
    let mut inplace = Vec::new();
    let mut stdin = Vec::new();
    let mut argv: Vec<String> = Vec::new();
    let mut calls = Vec::new();
    let mut argv_prefix = Vec::new();
    let mut faults = Vec::new();
    let docs: Vec<(&str, Vec<u8>)> = {
        let mut d: Vec<(&str, Vec<u8>)> = Vec::new();
        for x in XML_DOCS {
            d.push(("xml", x.as_bytes().to_vec()));
        }
        for x in YAML_DOCS {
            d.push(("yaml", x.as_bytes().to_vec()));
        }
        for x in TOML_DOCS {
            d.push(("toml", x.as_bytes().to_vec()));
        }
        for x in CSV_DOCS {
            d.push(("csv", x.as_bytes().to_vec()));
            d.push(("tsv", x.replace(',', "\t").into_bytes()));
        }
        for x in JSON_DOCS {
            d.push(("json", x.as_bytes().to_vec()));
        }
        for x in cbor_docs() {
            d.push(("cbor", x));
        }
        for x in magic_docs() {
            d.push((*rng.pick(&["json", "yaml", "cbor", "toml", "csv", "raw"]), x));
        }
        d
    };
    match kind {
        "natives" => {
            let nh = HOSTILE.len();
            argv.extend(["-n".to_string(), "-c".to_string()]);
            for (i, h) in HOSTILE.iter().enumerate() {
                argv.extend(["--arg".to_string(), format!("h{i}"), h.to_string()]);
            }
            // a hostile document as a string (for from*, test, etc.)
            let text_docs: Vec<&(&str, Vec<u8>)> = docs.iter().filter(|d| d.0 != "cbor").collect();
            let (_, doc) = rng.pick(&text_docs);
            files.push(FileSpec::file("w/doc.txt", doc.clone(), 0o644));
            allowed.push("w/doc.txt".to_string());
            argv.extend(["--rawfile".to_string(), "doc".to_string(), "doc.txt".to_string()]);
            // structured hostile values: a filter that takes an object or array of options
            argv.extend([
                "--argjson".to_string(),
                "hobj".to_string(),
                "{\"path\": \"/@ROOT/honey/secret.txt\", \"file\": \"/@ROOT/honey/newfile\", \"url\": \"file:///@ROOT/honey/secret.txt\", \"cmd\": [\"touch\", \"/@ROOT/honey/pwned\"], \"search\": \"/@ROOT/honey\", \"include\": \"mod\"}".to_string(),
            ]);
            argv_prefix = argv.clone();
            let n = 40 + rng.usize(30);
            for _ in 0..n {
                let (name, arity) = rng.pick(filters);
                if name.starts_with("halt") {
                    continue;
                }
                calls.push(call_expr(name, *arity, rng, nh));
            }
            for _ in 0..3 {
                calls.push(rng.pick(DIRECTED).replace("$root", "/@ROOT"));
            }
            argv.push(batch_program(&calls));
            stdin = b"\"/@ROOT/honey/secret.txt\"\n".to_vec();
            if rng.chance(1, 5) {
                // the time-zone database is unreadable: fallbacks must not wander elsewhere
                faults.push(Fault {
                    at: At::Nth { class: Class::Open, obj: Obj::Prefix("/usr/share/zoneinfo".into()), n: 0, sticky: true },
                    kind: FaultKind::Fail(*rng.pick(&[libc::EACCES, libc::ENOENT])),
                    sig: None,
                });
                faults.push(Fault {
                    at: At::Nth { class: Class::Open, obj: Obj::Prefix("/etc/localtime".into()), n: 0, sticky: true },
                    kind: FaultKind::Fail(libc::ENOENT),
                    sig: None,
                });
            }
        }
        "decoder" => {
            let (fmt, doc) = rng.pick(&docs).clone();
            let filter = *rng.pick(&[".", "..", "tojson", "[.. | strings]", "[paths]", "toxml?", "toyaml", "[.. | strings | (fromxml?, fromyaml?, fromjson?)]", "@json", "tostring"]);
            let to = *rng.pick(&["", "", "json", "yaml", "xml", "toml", "cbor", "csv", "raw"]);
            if !to.is_empty() {
                argv.extend(["--to".to_string(), to.to_string()]);
            }
            match rng.usize(5) {
                3 => {
                    // as the second input file (read after the filter has already run) under a
                    // name that suggests compression
                    files.push(FileSpec::file("w/first.json", "{\"a\": 1}\n", 0o644));
                    let name = *rng.pick(&["second.json", "second.json.gz", "second.gz", "second", "second.zip"]);
                    files.push(FileSpec::file(format!("w/{name}"), doc, 0o644));
                    allowed.push("w/first.json".to_string());
                    allowed.push(format!("w/{name}"));
                    argv.extend([filter.to_string(), "first.json".to_string(), name.to_string()]);
                }
                4 => {
                    files.push(FileSpec::file("w/blob.bin", doc, 0o644));
                    allowed.push("w/blob.bin".to_string());
                    let opt = *rng.pick(&["--rawfile", "--slurpfile"]);
                    argv.extend(["-n".to_string(), opt.to_string(), "x".to_string(), "blob.bin".to_string(), "$x | length".to_string()]);
                }
                0 => {
                    // as a file with a telling extension
                    let name = format!("in.{}", if fmt == "yaml" && rng.chance(1, 2) { "yml" } else { fmt });
                    files.push(FileSpec::file(format!("w/{name}"), doc, 0o644));
                    allowed.push(format!("w/{name}"));
                    argv.push(filter.to_string());
                    argv.push(name);
                }
                1 => {
                    argv.extend(["--from".to_string(), fmt.to_string(), filter.to_string()]);
                    stdin = doc;
                }
                _ => {
                    files.push(FileSpec::file("w/blob", doc, 0o644));
                    allowed.push("w/blob".to_string());
                    argv.extend(["--from".to_string(), fmt.to_string(), filter.to_string(), "./blob".to_string()]);
                }
            }
        }
        "module" => {
            files.push(FileSpec::file("w/lib/m.jq", "def m: [., \"/@ROOT/honey/secret.txt\"];\n", 0o644));
            files.push(FileSpec::file("w/lib/d.json", "\"/@ROOT/honey/secret.txt\" {\"include\": \"/@ROOT/honey/secret.txt\"}\n", 0o644));
            files.push(FileSpec::file("w/in.json", "\"/@ROOT/honey/secret.txt\"\n", 0o644));
            for p in ["w/lib/m.jq", "w/lib/d.json", "w/in.json", "w/lib/m", "w/lib/d", "w/m.jq", "w/d.json"] {
                allowed.push(p.to_string());
            }
            let (name, arity) = rng.pick(filters).clone();
            let call = if name.starts_with("halt") { "0".to_string() } else { call_expr(&name, arity, rng, 1).replace("$doc", "$h0").replace("$hobj", "$h0") };
            argv.extend([
                "-c".to_string(),
                "-L".to_string(),
                "lib".to_string(),
                format!("include \"m\"; import \"d\" as $d; . as $h0 | [m, $d, {call}]"),
                "in.json".to_string(),
            ]);
        }
        "abend" => {
            // the run ends abnormally - a panic, an overflowing stack, an uncaught error, a
            // closed output: whatever the process does on its way out is held to the same policy
            let prog = *rng.pick(ABEND);
            argv.extend(["-c".to_string(), prog.to_string()]);
            if rng.chance(1, 2) {
                files.push(FileSpec::file("w/in.json", "{\"a\": \"/@ROOT/honey/secret.txt\", \"n\": 9223372036854775807}\n", 0o644));
                allowed.push("w/in.json".to_string());
                argv.push("in.json".to_string());
            } else {
                stdin = b"{\"a\": \"/@ROOT/honey/newfile\", \"n\": 9223372036854775807}\n".to_vec();
            }
            if rng.chance(1, 3) {
                faults.push(Fault {
                    at: At::Nth { class: Class::Write, obj: Obj::Stdout, n: 0, sticky: true },
                    kind: FaultKind::Fail(*rng.pick(&[libc::EPIPE, libc::EIO, libc::ENOSPC])),
                    sig: None,
                });
            }
        }
        _ => {
            files.push(FileSpec::file("w/f.json", "{\"a\": \"/@ROOT/honey/secret.txt\"}\n", 0o644));
            allowed.push("w/f.json".to_string());
            inplace.push("w/f.json".to_string());
            let filter = *rng.pick(&[
                ".",
                ".a",
                ".b = \"/@ROOT/honey/newfile\"",
                "[., input_filename]",
                "if .a then halt else . end",
                "., (\"stop\\n\" | halt_error)",
                "error(\"/@ROOT/honey/newfile\")",
            ]);
            argv.extend(["-i".to_string(), filter.to_string(), "f.json".to_string()]);
        }
    }
    // every variable the tree reads (and the run does not already set) holds, half of the time, a
    // command that would leave a mark in a honeypot directory
    for n in env_names {
        if !env.iter().any(|(k, _)| k == n) && rng.chance(1, 2) {
            env.push((n.clone(), format!("touch /@ROOT/honey/env-{n}")));
        }
    }
    // one run in four writes to a terminal (paging, colours, prompts are decided by that)
    let tty = kind != "inplace" && rng.chance(1, 4);
    Case {
        files,
        argv,
        env,
        stdin: Blob(stdin),
        faults,
        kind: kind.to_string(),
        allowed,
        inplace,
        calls,
        argv_prefix,
        tty,
    }
}

/// Run a case; a batch of native calls that does not end with status 0 is re-run call by call
/// (so that one crashing or exiting filter does not hide the others).
pub fn eval(case: &Case, su: &Startup, wk: &mut Worker, tally: &mut Tally) -> Result<(Option<(String, String)>, History), Harness> {
    let h = wk.run(&case.world())?;
    if let Some(v) = judge(case, su, &h) {
        return Ok((Some(v), h));
    }
    if case.kind == "natives" && h.exit != Exit::Exited(0) && case.calls.len() > 1 {
        tally.add("batches_rerun_call_by_call");
        for c in &case.calls {
            let mut one = case.clone();
            one.calls = vec![c.clone()];
            one.argv = case.argv_prefix.clone();
            one.argv.push(c.clone());
            let h1 = wk.run(&one.world())?;
            match h1.exit {
                Exit::Exited(0) => tally.add("calls_ok"),
                Exit::Exited(3) => tally.add("calls_not_callable"),
                Exit::Hung => tally.add("calls_hung"),
                _ => tally.add("calls_ended_abnormally"),
            }
            if let Some(v) = judge(&one, su, &h1) {
                return Ok((Some(v), h1));
            }
        }
    } else if case.kind == "natives" {
        tally.add_n("calls_ok", case.calls.len() as u64);
    }
    Ok((None, h))
}

fn fingerprint(case: &Case, detail: &str) -> BTreeMap<String, String> {
    let mut m = BTreeMap::new();
    m.insert("kind".into(), case.kind.clone());
    m.insert("op".into(), detail.split('(').next().unwrap_or("").rsplit(' ').next().unwrap_or("").to_string());
    m
}

fn minimise(case: &Case, class: &str, su: &Startup, wk: &mut Worker) -> (Case, u32) {
    // for batches: find a single call that still violates
    let mut t = Tally::default();
    if case.kind == "natives" && case.calls.len() > 1 {
        for c in &case.calls {
            let mut one = case.clone();
            one.calls = vec![c.clone()];
            one.argv = case.argv_prefix.clone();
            one.argv.push(c.clone());
            if let Ok((Some((cl, _)), _)) = eval(&one, su, wk, &mut t) {
                if cl == class {
                    return (one, 1);
                }
            }
        }
    }
    (case.clone(), 0)
}

pub fn check(cfg: &Cfg) -> Result<i32, Harness> {
    let started = std::time::Instant::now();
    simos::tracer::WATCHDOG_MS.store(10_000, std::sync::atomic::Ordering::Relaxed);
    let n = cfg.n(500, 12_000);
    let filters = discover(cfg);
    let env_names = discover_env(cfg);
    if filters.len() < 100 {
        return Err(Harness(format!("only {} filters discovered: discovery is broken", filters.len())));
    }
    let su = startup(cfg, &base_env(&mut Rng::for_run(0, "env", 0)))?;
    let idx: Vec<u64> = (0..n as u64).collect();
    struct Out {
        viol: Option<Violation>,
        tally: Tally,
        keys: Vec<String>,
        sample: Option<serde_json::Value>,
    }
    let results: Vec<Result<Out, Harness>> = par_map(
        &idx,
        cfg.simos_workers,
        |k| Worker::new(cfg, k),
        |wk, _, &i| {
            let wk = wk.as_mut().map_err(|e| Harness(e.0.clone()))?;
            wk.tally = Tally::default();
            let mut rng = Rng::for_run(cfg.seed, ID, i);
            let case = gen_case(&mut rng, &filters, &env_names);
            let mut tally = Tally::default();
            let (v, h) = eval(&case, &su, wk, &mut tally)?;
            record_digest(i, h.digest());
            if let Some(d) = std::env::var_os("VF_HIST_DIR") {
                // debugging aid of the determinism self-test: the observable history of every run
                let mut t = format!("{:?}\n{:?}\n--stderr\n{}\n--stdout {} bytes\n", case.argv, h.exit, String::from_utf8_lossy(&h.stderr.0), h.stdout.0.len());
                for o in &h.ops {
                    t.push_str(&format!("{} = {} {:?}\n", o.sig(), o.ret, o.injected));
                }
                t.push_str(&format!("--normalised stderr {:?}\n", simos::tracer::norm_thread_ids(&simos::tracer::norm_tmp_text(&String::from_utf8_lossy(&h.stderr.0)))));
                t.push_str(&format!("--digest {:x} stdout {:x}\n", h.digest(), crate::common::hash_str(&String::from_utf8_lossy(&h.stdout.0))));
                for (p, f) in &h.files_after {
                    t.push_str(&format!("{p} {:?} {} {:o}\n", f.kind, f.bytes.0.len(), f.mode));
                }
                let _ = std::fs::write(std::path::Path::new(&d).join(format!("{i}.txt")), t);
            }
            if std::env::var("VF_TRACE_DUMP").ok().and_then(|s| s.parse::<u64>().ok()) == Some(i) {
                for o in &h.ops {
                    eprintln!("DUMP {:?} {} ret={} inj={:?}", o.seq, o.sig(), o.ret.min(1 << 40), o.injected);
                }
                eprintln!("DUMP exit={:?} stdout={:?} stderr={:?}", h.exit, String::from_utf8_lossy(&h.stdout.0), String::from_utf8_lossy(&h.stderr.0));
            }
            tally.add(format!("runs:{}", case.kind));
            if case.tty {
                tally.add("reach:stdout_is_a_terminal");
            }
            for f in &h.fired {
                tally.add(format!("fired:{}", f.split(' ').nth(1).unwrap_or("?")));
            }
            if h.ops.iter().any(|o| o.path.as_deref().is_some_and(|p| p.starts_with("/usr/share/zoneinfo"))) {
                tally.add("reach:time_zone_database_consulted");
            }
            if h.ops.iter().any(|o| o.class == Class::Open && o.path.as_deref().is_some_and(|p| p.contains("/lib/m.jq"))) {
                tally.add("reach:module_file_read");
            }
            if h.ops.iter().any(|o| o.class == Class::Rename && o.ret == 0) {
                tally.add("reach:in_place_rename");
            }
            match h.exit {
                Exit::Exited(0) => tally.add("reach:exit0"),
                Exit::Exited(5) => tally.add("reach:exit5"),
                Exit::Exited(101) => tally.add("abnormal:panic"),
                Exit::Hung => tally.add("abnormal:hung"),
                _ => {}
            }
            let mut keys: Vec<String> = Vec::new();
            if case.kind == "natives" {
                // distinct = distinct (filter, arity) pairs exercised
                for c in &case.calls {
                    if let Some(k) = c.split(" | ").nth(1) {
                        keys.push(format!("call:{}", k.split([')', '(']).next().unwrap_or(k)));
                    }
                }
            } else {
                keys.push(format!("{}:{}", case.kind, case.argv.join(" ")));
            }
            let viol = v.map(|(class, detail)| {
                let (m, steps) = minimise(&case, &class, &su, wk);
                Violation {
                    property: ID.into(),
                    fingerprint: fingerprint(&case, &detail),
                    class,
                    detail,
                    case: serde_json::to_value(&m).unwrap(),
                    seed: cfg.seed,
                    run: i,
                    minimised_steps: steps,
                }
            });
            let sample = (i < 3 || (i < 40 && case.kind != "natives" && i % 7 == 0)).then(|| {
                let mut argv = case.argv.clone();
                if let Some(l) = argv.last_mut() {
                    if l.len() > 400 {
                        l.truncate(400);
                        l.push_str("…");
                    }
                }
                json!({"kind": case.kind, "argv": argv, "exit": format!("{:?}", h.exit), "syscalls_logged": h.ops.len()})
            });
            tally.merge(&wk.tally);
            Ok(Out { viol, tally, keys, sample })
        },
    );
    let mut tally = Tally::default();
    let mut keys = BTreeSet::new();
    let mut violations = Vec::new();
    let mut samples = Vec::new();
    let mut evaluations = 0u64;
    for r in results {
        let o = r?;
        evaluations += 1;
        tally.merge(&o.tally);
        keys.extend(o.keys);
        if let Some(v) = o.viol {
            violations.push(v);
        }
        if let Some(s) = o.sample {
            samples.push(s);
        }
    }
    let pick = |p: &str| -> BTreeMap<String, u64> {
        tally.0.iter().filter(|(k, _)| k.starts_with(p)).map(|(k, v)| (k[p.len()..].to_string(), *v)).collect()
    };
    let ev = Evidence {
        property: ID,
        level: "exploration",
        coverage: json!({
            "evaluations": evaluations,
            "distinct_nontrivial": keys.len(),
            "rule": "each run is one process of the real binary in a world with honeypot files (paths that occur only in data and filter arguments). natives: a batch of 40-70 calls `try (limit(3; $hI | NAME($hJ; ...)) | 0) catch 1` over the filters discovered in the tree at run time (library natives, natives found in jaq/src/*.rs except repl, all jq-coded definitions) with path-, URL- and command-like strings and hostile documents as input and arguments, plus three calls per batch aimed at the time-zone look-up (zone names and formats that traverse out of the database towards a honeypot) (a batch that does not exit 0 is re-run call by call); decoder: hostile XML (external entities, SYSTEM ids, xinclude, PIs), YAML (language tags, !include, merge keys, aliases), CBOR (tags 24/32/55799), TOML, CSV/TSV, JSON documents and files that begin with the magic numbers of compressed data, archives, executables and scripts, through files (also as second input file, --rawfile, --slurpfile, under misleading names), stdin and from*/to* filters with every --to; module: include/import/data import from -L (allowed reads are exercised); inplace: -i (documented exception). abend: the run ends by a panic (two data-driven ones exist in the pinned tree), an overflowing stack, an uncaught error, halt_error, a huge output, optionally on a standard output that fails with EPIPE/EIO/ENOSPC; TMPDIR points into the world. One in five native batches runs with the time-zone database unreadable. Policy over the complete system-call history: no network/process/kernel call, no file-system mutation outside the -i exception, no access of any kind to a honeypot, no open/stat of a path the invocation does not name (start-up set measured with `jaq -n empty`, time-zone database read-only), unchanged file tree afterwards. distinct = distinct called filters (natives) plus distinct command lines (other kinds).",
            "filters_discovered": filters.len(),
            "environment_variables_discovered": env_names,
            "runs_by_kind": pick("runs:"),
            "faults_fired": pick("fired:"),
            "reach_probes": pick("reach:"),
            "abnormal_endings": pick("abnormal:"),
            "calls": pick("calls_"),
            "startup_set": su.0,
            "steps": tally.get("steps"),
            "real_vs_stub": {"real": ["jaq binary from /repo working tree", "libc", "kernel", "the host's time-zone database"], "simulated": ["file tree with honeypots", "environment", "denial of network/process calls", "unreadable time-zone database"]},
            "samples": samples,
        }),
        assumptions: vec![
            "the system-call boundary is the observation point: effects that need no system call (none are known) are invisible".into(),
            "vDSO clock reads are not visible to ptrace; the clock is not a file, socket or process".into(),
            "`repl` is excluded by name (documented exception)".into(),
        ],
    };
    finish(cfg, ev, violations, started)
}

pub fn replay(cfg: &Cfg, v: &Violation) -> Result<Option<(String, String)>, Harness> {
    let case: Case = serde_json::from_value(v.case.clone())?;
    let su = startup(cfg, &case.env)?;
    let mut wk = Worker::new(cfg, 0)?;
    let mut t = Tally::default();
    let (viol, _) = eval(&case, &su, &mut wk, &mut t)?;
    Ok(viol)
}
