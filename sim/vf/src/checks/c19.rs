//! C19 — a compiled filter is immutable shared data: concurrent runs equal isolated runs.
//! Engine: simthreads (shuttle). S0: the `Send + Sync` facts are a compile-time assertion of the
//! simthreads crate, built here against the working tree in both value flavours; S1: seeded
//! random and PCT schedules of 2-4 threads sharing one `Arc<Filter>`, each stream compared with
//! the stream of the same (program, input) computed alone in a fresh process.
use crate::common::*;
use crate::par::par_map;
use serde_json::{json, Value};
use std::collections::{BTreeMap, BTreeSet};
use std::path::{Path, PathBuf};
use std::process::Command;

pub const ID: &str = "C19";

fn sim_dir(cfg: &Cfg) -> PathBuf {
    cfg.verif.join("sim")
}

fn target_dir(cfg: &Cfg, sync: bool) -> PathBuf {
    sim_dir(cfg).join(if sync { "target-sync" } else { "target" })
}

/// Build simthreads against the working tree. A failure that names the Send/Sync bounds is the
/// S0 violation; any other failure is a harness error.
fn build(cfg: &Cfg, sync: bool) -> Result<Result<PathBuf, String>, Harness> {
    let mut cmd = Command::new("cargo");
    cmd.current_dir(sim_dir(cfg))
        .args(["build", "--offline", "-q", "-p", "simthreads", "--target-dir"])
        .arg(target_dir(cfg, sync))
        .env("CARGO_NET_OFFLINE", "true");
    if sync {
        cmd.args(["--features", "sync"]);
    }
    let out = cmd.output()?;
    if out.status.success() {
        return Ok(Ok(target_dir(cfg, sync).join("debug/simthreads")));
    }
    let err = String::from_utf8_lossy(&out.stderr).into_owned();
    let names_bounds = err.contains("cannot be sent between threads safely")
        || err.contains("cannot be shared between threads safely")
        || err.contains("`Send` is not implemented")
        || err.contains("`Sync` is not implemented");
    let in_facts = err.contains("static_facts") || err.contains("send_sync");
    if names_bounds && in_facts {
        Ok(Err(err))
    } else {
        Err(Harness(format!(
            "simthreads ({}) does not build:\n{}",
            if sync { "sync" } else { "default" },
            err.lines().take(40).collect::<Vec<_>>().join("\n")
        )))
    }
}

fn run_json(exe: &Path, args: &[&str]) -> Result<Value, Harness> {
    let out = Command::new(exe).args(args).output()?;
    if !out.status.success() {
        return Err(Harness(format!("{} {:?} failed: {}", exe.display(), args, String::from_utf8_lossy(&out.stderr))));
    }
    Ok(serde_json::from_slice(&out.stdout)?)
}

/// The isolated oracle: every program in its own fresh process (all inputs, nothing else).
fn oracle(cfg: &Cfg, exe: &Path) -> Result<Value, Harness> {
    let l = run_json(exe, &["list"])?;
    let np = l["programs"].as_array().map_or(0, |a| a.len());
    let nx = l["inputs"].as_array().map_or(0, |a| a.len());
    let progs: Vec<usize> = (0..np).collect();
    let res: Vec<Result<Value, Harness>> = par_map(&progs, cfg.workers, |_| (), |_, _, &p| run_json(exe, &["oracle", &p.to_string()]));
    let mut table = vec![vec![Value::Null; nx]; np];
    for (p, r) in progs.iter().zip(res) {
        let row = r?;
        for x in 0..nx {
            table[*p][x] = row[x].clone();
        }
    }
    Ok(json!({"programs": l["programs"], "inputs": l["inputs"], "table": table}))
}

struct RunOut {
    stats: Option<Value>,
    failure: Option<(String, String)>, // (message, schedule file contents)
}

fn run_sched(exe: &Path, table: &Path, seed: u64, iters: usize, sched: &str, dir: &Path) -> Result<RunOut, Harness> {
    std::fs::create_dir_all(dir)?;
    let out = Command::new(exe)
        .args(["run", &table.to_string_lossy(), &seed.to_string(), &iters.to_string(), sched, &dir.to_string_lossy()])
        .env_remove("SHUTTLE_RANDOM_SEED")
        .output()?;
    let stdout = String::from_utf8_lossy(&out.stdout).into_owned();
    let stderr = String::from_utf8_lossy(&out.stderr).into_owned();
    if out.status.success() {
        let stats = stdout.lines().find_map(|l| l.strip_prefix("STATS ")).and_then(|s| serde_json::from_str(s).ok());
        return Ok(RunOut { stats, failure: None });
    }
    // a failing schedule was persisted into `dir`
    let mut schedule = String::new();
    if let Ok(rd) = std::fs::read_dir(dir) {
        for e in rd.flatten() {
            if let Ok(s) = std::fs::read_to_string(e.path()) {
                schedule = s;
            }
        }
    }
    let msg = stderr
        .lines()
        .chain(stdout.lines())
        .find(|l| l.contains("MISMATCH"))
        .map(|l| l[l.find("MISMATCH").unwrap()..].to_string())
        .or_else(|| {
            // a thread of the scenario panicked for another reason (e.g. an input that no longer decodes)
            let ls: Vec<&str> = stderr.lines().collect();
            ls.iter().position(|l| l.contains("panicked at") && !l.contains("shuttle")).map(|i| format!("a thread panicked: {}", ls[i..ls.len().min(i + 2)].join(" ")))
        })
        .unwrap_or_else(|| stderr.lines().rev().take(6).collect::<Vec<_>>().join(" | "));
    if schedule.is_empty() {
        return Err(Harness(format!("simthreads run failed without a persisted schedule: {msg}")));
    }
    Ok(RunOut { stats: None, failure: Some((msg, schedule)) })
}

/// S2: real threads under Miri's seeded scheduler. Returns (seeds run, failure).
fn run_miri(cfg: &Cfg, seeds: std::ops::Range<u64>, threads: usize, reps: usize, programs: usize) -> Result<(u64, Option<(u64, String)>), Harness> {
    let flags = format!(
        "-Zmiri-many-seeds={}..{} -Zmiri-preemption-rate=0.05 -Zmiri-disable-isolation",
        seeds.start, seeds.end
    );
    let out = Command::new("cargo")
        .current_dir(sim_dir(cfg))
        .args(["+nightly", "miri", "run", "--offline", "-q", "-p", "simmiri", "--target-dir"])
        .arg(sim_dir(cfg).join("target-miri"))
        .args(["--", &threads.to_string(), &reps.to_string(), &programs.to_string()])
        .env("MIRIFLAGS", flags)
        .env("CARGO_NET_OFFLINE", "true")
        .output()?;
    let text = format!("{}{}", String::from_utf8_lossy(&out.stdout), String::from_utf8_lossy(&out.stderr));
    let ok_runs = text.lines().filter(|l| l.starts_with("simmiri: ")).count() as u64;
    let failing_seed = text.lines().find_map(|l| l.trim().strip_prefix("FAILING SEED: ").and_then(|s| s.trim().parse::<u64>().ok()));
    let mismatch = text.lines().find(|l| l.contains("MISMATCH")).map(|l| l.to_string());
    let ub = text.lines().find(|l| l.contains("Undefined Behavior") || l.contains("Data race detected")).map(|l| l.to_string());
    if let Some(m) = mismatch.or(ub) {
        return Ok((ok_runs, Some((failing_seed.unwrap_or(seeds.start), m))));
    }
    if !out.status.success() {
        return Err(Harness(format!(
            "Miri run failed without a mismatch: {}",
            text.lines().filter(|l| !l.starts_with("Trying seed")).take(12).collect::<Vec<_>>().join(" | ")
        )));
    }
    Ok((ok_runs, None))
}

pub fn check(cfg: &Cfg) -> Result<i32, Harness> {
    let started = std::time::Instant::now();
    let scratch = simos::tracer::scratch_base().join("c19");
    std::fs::create_dir_all(&scratch)?;
    let mut violations: Vec<Violation> = Vec::new();
    let mut tally = Tally::default();
    let mut interleavings: BTreeSet<u64> = BTreeSet::new();
    let mut samples = Vec::new();
    let mut schedules = 0u64;
    let mut table_programs = 0usize;
    let per_proc = cfg.n(120, 6000);
    // the set of runs must not depend on the number of workers
    let procs = 16usize;
    for sync in [false, true] {
        let flavour = if sync { "sync" } else { "default" };
        let exe = match build(cfg, sync)? {
            Ok(e) => e,
            Err(msg) => {
                let mut fp = BTreeMap::new();
                fp.insert("flavour".into(), flavour.to_string());
                violations.push(Violation {
                    property: ID.into(),
                    class: "S0".into(),
                    detail: format!(
                        "the compiled filter (or, with jaq-json/sync, the value type) is no longer Send + Sync: {}",
                        msg.lines().filter(|l| l.contains("error") || l.contains("cannot be")).take(4).collect::<Vec<_>>().join(" | ")
                    ),
                    fingerprint: fp,
                    case: json!({"kind": "static", "flavour": flavour, "compiler_output": msg.lines().take(60).collect::<Vec<_>>()}),
                    seed: cfg.seed,
                    run: sync as u64,
                    minimised_steps: 0,
                });
                continue;
            }
        };
        tally.add(format!("static_facts_hold:{flavour}"));
        let table = oracle(cfg, &exe)?;
        table_programs = table["programs"].as_array().map_or(0, |a| a.len());
        let table_path = scratch.join(format!("table-{flavour}.json"));
        std::fs::write(&table_path, serde_json::to_string(&table)?)?;
        tally.add_n("oracle_processes", table["table"].as_array().map_or(0, |t| t.iter().map(|r| r.as_array().map_or(0, |r| r.len())).sum::<usize>()) as u64);
        if samples.len() < 2 {
            samples.push(json!({"flavour": flavour, "program": table["programs"][12], "input": table["inputs"][3], "isolated_stream": table["table"][12][3]}));
        }
        let tasks: Vec<(usize, &str)> = (0..procs).flat_map(|k| [(k, "random"), (k, "pct")]).collect();
        let res: Vec<Result<RunOut, Harness>> = par_map(&tasks, cfg.workers, |_| (), |_, i, (k, sched)| {
            let seed = cfg.seed.wrapping_mul(1_000_003).wrapping_add(*k as u64 * 7919 + if sync { 1 } else { 0 });
            let dir = scratch.join(format!("sched-{flavour}-{i}"));
            run_sched(&exe, &table_path, seed, per_proc, sched, &dir)
        });
        for ((k, sched), r) in tasks.iter().zip(res) {
            let r = r?;
            if let Some(st) = r.stats {
                record_digest(*k as u64 * 4 + (sync as u64) * 2 + (*sched == "pct") as u64, hash_str(&st.to_string()));
                schedules += st["schedules"].as_u64().unwrap_or(0);
                tally.add_n(format!("schedules:{flavour}:{sched}"), st["schedules"].as_u64().unwrap_or(0));
                tally.add_n("threads", st["threads"].as_u64().unwrap_or(0));
                tally.add_n("pulls", st["pulls"].as_u64().unwrap_or(0));
                tally.add_n("reach:concurrent_recompiles", st["recompiles"].as_u64().unwrap_or(0));
                tally.add_n("reach:runs_on_a_value_shared_between_threads", st["shared_value_runs"].as_u64().unwrap_or(0));
                tally.add_n("nontrivial_interleavings", st["nontrivial_interleavings"].as_u64().unwrap_or(0));
                if let Some(h) = st["interleaving_hashes"].as_array() {
                    interleavings.extend(h.iter().filter_map(|x| x.as_u64()));
                }
            }
            if let Some((msg, schedule)) = r.failure {
                let mut fp = BTreeMap::new();
                fp.insert("flavour".into(), flavour.to_string());
                let prog = msg.split("\"program\":").nth(1).and_then(|s| s.split("\",").next()).unwrap_or("").to_string();
                fp.insert("program".into(), prog);
                violations.push(Violation {
                    property: ID.into(),
                    class: "S1".into(),
                    detail: format!("under a {sched} schedule a run differed from the isolated run: {}", msg.chars().take(700).collect::<String>()),
                    fingerprint: fp,
                    case: json!({"kind": "schedule", "flavour": flavour, "scheduler": sched, "table": table, "schedule": schedule}),
                    seed: cfg.seed,
                    run: *k as u64,
                    minimised_steps: 0,
                });
            }
        }
    }
    let _ = std::fs::remove_dir_all(&scratch);
    // S2: preemption inside interpreter calls (Miri's seeded scheduler, real threads)
    // quick: the 10 core-language programs; thorough: also 10 programs calling natives of
    // jaq-std / jaq-json directly (regex, codecs, sorting - about six times dearer per seed)
    let n_seeds = cfg.n(12, 64) as u64;
    let n_programs = cfg.tier.pick(10usize, 20usize);
    let base = cfg.seed.wrapping_mul(1000) % 1_000_000;
    // (not attempted when the static facts already fail: the thread harness cannot be built then)
    let (miri_runs, miri_fail) = if violations.iter().any(|v| v.class == "S0") { (0, None) } else { run_miri(cfg, base..base + n_seeds, 3, 2, n_programs)? };
    tally.add_n("miri_seeds", miri_runs);
    if let Some((seed, msg)) = miri_fail {
        let mut fp = BTreeMap::new();
        fp.insert("flavour".into(), "miri".to_string());
        violations.push(Violation {
            property: ID.into(),
            class: "S2".into(),
            detail: format!("with real threads under Miri's scheduler (seed {seed}) a run differed from the sequential run, or Miri reported undefined behaviour: {}", msg.chars().take(700).collect::<String>()),
            fingerprint: fp,
            case: json!({"kind": "miri", "miri_seed": seed, "threads": 3, "reps": 2, "programs": n_programs}),
            seed: cfg.seed,
            run: 1000 + seed,
            minimised_steps: 0,
        });
    }
    let pick = |p: &str| -> BTreeMap<String, u64> {
        tally.0.iter().filter(|(k, _)| k.starts_with(p)).map(|(k, v)| (k[p.len()..].to_string(), *v)).collect()
    };
    let ev = Evidence {
        property: ID,
        level: "exploration",
        coverage: json!({
            "evaluations": (schedules + miri_runs).max(1),
            "distinct_nontrivial": interleavings.len().min(tally.get("nontrivial_interleavings") as usize),
            "programs": table_programs,
            "rule": "S0: the simthreads crate, which asserts `Filter<DataKind>: Send + Sync`, `Filter<JustLut<Val>>: Send + Sync`, `Lut: Send + Sync` and (feature jaq-json/sync) `Val: Send + Sync`, is compiled against the working tree in both flavours. S1: for 64 hand-written terminating programs (regex with different flags, formats, dates, closures, lazily created nested labels, folds, updates, paths, codecs) plus one or two calls of every filter the tree defines (natives and jq-coded definitions discovered at run time; clock, environment, input stream and halting filters excluded) x 9 inputs the output streams are computed in a fresh process per program that does nothing else (isolated oracle); then shuttle runs seeded random and PCT(depth 3) schedules of 2-4 threads sharing one compiled filter per program, each thread pulling one output per scheduling step, one thread in ten also compiling and running another program in between, and - in the sync flavour - half of the threads working on one value shared between them; every stream must equal the isolated one, recompilation must succeed iff it does in isolation, and the shared value must be unchanged. An interleaving is the sequence of thread ids in pull order; distinct = distinct interleavings (hash) among non-trivial ones; non-trivial = at least T context switches (not a concatenation of complete runs). Inputs include a five-key nested object; twelve programs perform a single update each (del, |= empty, delpaths, to_entries, with_entries, +=, =) so that alone the program holds the only handle to its input while under a schedule half of the threads hold handles of one shared value. The Miri stratum is built with jaq-json/sync and additionally runs five restructuring programs per thread on a handle of one shared value (compared with runs on a sole handle; the shared value is compared with its original at the end).",
            "schedules": pick("schedules:"),
            "static_facts": pick("static_facts_hold:"),
            "threads_run": tally.get("threads"),
            "pulls": tally.get("pulls"),
            "reach_probes": pick("reach:"),
            "distinct_interleavings_total": interleavings.len(),
            "nontrivial_interleavings": tally.get("nontrivial_interleavings"),
            "oracle_processes": tally.get("oracle_processes"),
            "miri": {"seeds_run": miri_runs, "seed_range": [base, base + n_seeds], "threads": 3, "repetitions": 2, "programs": n_programs, "preemption_rate": 0.05,
                     "what": "S2: 3 real threads share the compiled filters of 10 core-language programs (lazily created nested labels, folds, closures, recursion, updates) and run them twice each under Miri, whose scheduler preempts at basic-block granularity from a seed (one seed = one exactly repeatable execution) and which also reports data races and undefined behaviour; every stream must equal the sequential one"},
            "faults_injected": "none: the property has no fault in it; the simulated dimension is the schedule",
            "real_vs_stub": {"real": ["jaq compiler and interpreter, all natives, value type in both reference-counting flavours"], "simulated": ["thread scheduling (shuttle RandomScheduler / PctScheduler from VERIF_SEED; Miri's seeded scheduler in S2)"], "note": "jaq contains no synchronisation, so shuttle's only scheduling points are the ones the harness inserts between pulls, around recompilation and at thread exit; interleavings inside one interpreter call are explored by the (much smaller) Miri stratum, on core-language programs without the standard prelude"},
            "samples": samples,
        }),
        assumptions: vec![
            "shuttle explores interleavings at pull granularity only (jaq uses no shuttle primitive); preemption inside an interpreter call is left to the Miri stratum, which covers core-language programs (no standard prelude) on a small sample of seeds".into(),
            "filters reading the clock, the environment or the input stream are excluded, as the statement allows".into(),
        ],
    };
    finish(cfg, ev, violations, started)
}

pub fn replay(cfg: &Cfg, v: &Violation) -> Result<Option<(String, String)>, Harness> {
    let kind = v.case["kind"].as_str().unwrap_or("");
    let sync = v.case["flavour"].as_str() == Some("sync");
    if kind == "miri" {
        let seed = v.case["miri_seed"].as_u64().unwrap_or(0);
        let (_, fail) = run_miri(
            cfg,
            seed..seed + 1,
            v.case["threads"].as_u64().unwrap_or(3) as usize,
            v.case["reps"].as_u64().unwrap_or(2) as usize,
            v.case["programs"].as_u64().unwrap_or(10) as usize,
        )?;
        return Ok(fail.map(|(_, m)| ("S2".to_string(), m)));
    }
    if kind == "static" {
        return Ok(match build(cfg, sync)? {
            Ok(_) => None,
            Err(msg) => Some(("S0".into(), msg.lines().take(6).collect::<Vec<_>>().join(" | "))),
        });
    }
    let exe = match build(cfg, sync)? {
        Ok(e) => e,
        Err(msg) => return Ok(Some(("S0".into(), msg.lines().take(6).collect::<Vec<_>>().join(" | ")))),
    };
    let scratch = simos::tracer::scratch_base().join("c19-replay");
    std::fs::create_dir_all(&scratch)?;
    let table = scratch.join("table.json");
    let sched = scratch.join("schedule");
    std::fs::write(&table, serde_json::to_string(&v.case["table"])?)?;
    std::fs::write(&sched, v.case["schedule"].as_str().unwrap_or(""))?;
    let out = Command::new(&exe).args(["replay", &table.to_string_lossy(), &sched.to_string_lossy()]).output()?;
    let _ = std::fs::remove_dir_all(&scratch);
    if out.status.success() {
        return Ok(None);
    }
    let text = format!("{}{}", String::from_utf8_lossy(&out.stderr), String::from_utf8_lossy(&out.stdout));
    let msg = text.lines().find(|l| l.contains("MISMATCH")).map(|l| l[l.find("MISMATCH").unwrap()..].to_string());
    match msg {
        Some(m) => Ok(Some(("S1".into(), m.chars().take(700).collect()))),
        None => Err(Harness(format!("replay failed without a mismatch: {}", text.lines().rev().take(5).collect::<Vec<_>>().join(" | ")))),
    }
}
