//! C17, library stratum: the pieces `main.rs` composes for standard input — the streaming
//! readers (`read::read`), the main loop with its shared input iterator (`data::run`,
//! `input`/`inputs`) and the value writers (`write::write`) — run in-process under seeded
//! delivery and acceptance schedules (`simlib::io`), and are compared with the same reference
//! model as the process-level stratum. Far more schedules per second than the traced binary;
//! what it does *not* exercise is `main.rs`/`cli.rs` themselves.
use crate::common::*;
use crate::model::cli::{self, End, Invocation, StdinMode};
use crate::rng::Rng;
use crate::simlib::io::{RStep, ReadPlan, SimReader, SimWriter, WStep, WritePlan};
use jaq_all::data::Runner;
use jaq_all::fmts::read;
use jaq_all::jaq_core::load::{self, Arena, File, Loader};
use jaq_all::jaq_core::{compile::Compiler, ValT, Vars};
use jaq_all::json::Val;
use serde::{Deserialize, Serialize};
use serde_json::json;

pub const ID: &str = "C17";

#[derive(Clone, Debug, Serialize, Deserialize)]
pub struct Case {
    pub inv: Invocation,
    pub stdin: simos::Blob,
    pub plan: ReadPlan,
    pub wplan: WritePlan,
    /// the read fails once the bytes are used up
    pub read_fails: bool,
}

struct NoFs;
impl cli::Fs for NoFs {
    fn read(&self, _: &str) -> Option<Vec<u8>> {
        None
    }
}

#[derive(Debug, PartialEq)]
pub enum Outcome {
    Ok,
    Parse,
    Runtime,
    Halt(i32),
    Io,
    NoCompile,
}

/// The composition of `jaq/src/main.rs` (stdin branch) and `jaq/src/filter.rs::run`.
pub fn run_system(c: &Case) -> (Vec<u8>, Outcome) {
    let inv = &c.inv;
    let code = inv.filter.clone().unwrap_or_else(|| ".".into());
    let names = ["$ARGS", "$ENV", "$!input_filename"];
    let arena = Arena::default();
    let extra = core::iter::once(load::parse::Def { name: "input_filename", args: Vec::new(), body: load::parse::Term::Var("$!input_filename") });
    let loader = Loader::new(jaq_all::defs().chain(extra));
    let Ok(modules) = loader.load(&arena, File { path: (), code: &code }) else { return (vec![], Outcome::NoCompile) };
    let Ok(filter) = Compiler::default().with_funs(jaq_all::data::funs()).with_global_vars(names).compile(modules) else {
        return (vec![], Outcome::NoCompile);
    };
    let args = Val::obj(
        [
            (Val::from("positional".to_string()), [].into_iter().collect::<Val>()),
            (Val::from("named".to_string()), Val::obj(Default::default())),
        ]
        .into_iter()
        .collect(),
    );
    let env = Val::obj(inv.env.iter().map(|(k, v)| (Val::from(k.clone()), Val::from(v.clone()))).collect());
    let vars = Vars::new([args, env, Val::utf8_str("<stdin>".as_bytes().to_vec())]);
    let Ok(writer) = cli::writer_of(inv) else { return (vec![], Outcome::Io) };
    let runner = Runner { null_input: inv.null_input, color_err: false, writer: cli::writer_of(inv).unwrap() };
    let format = inv.from.as_deref().and_then(cli::parse_format).unwrap_or_default();
    let mut plan = c.plan.clone();
    plan.fail_at_end = c.read_fails;
    let s = match read::read_string(format, SimReader::new(c.stdin.0.clone(), plan.clone())) {
        Ok(s) => s,
        Err(_) => return (vec![], Outcome::Io),
    };
    let inputs = read::read(format, SimReader::new(c.stdin.0.clone(), plan), &s, inv.slurp);
    let mut w = SimWriter::new(c.wplan.clone());
    #[derive(Debug)]
    enum E {
        Parse,
        Runtime,
        Halt(i32),
        Io,
    }
    let r = jaq_all::data::run(&runner, &filter, vars, inputs, |_e| E::Parse, |v| match v {
        Ok(v) => jaq_all::fmts::write::write(&mut w, &writer, &v).map_err(|_| E::Io),
        Err(exn) => Err(match exn.get_err() {
            Ok(_) => E::Runtime,
            Err(exn) => exn.get_halt().map_or(E::Runtime, E::Halt),
        }),
    });
    let outcome = match r {
        Ok(()) => Outcome::Ok,
        Err(E::Parse) => Outcome::Parse,
        Err(E::Runtime) => Outcome::Runtime,
        Err(E::Halt(c)) => Outcome::Halt(c),
        Err(E::Io) => Outcome::Io,
    };
    (w.accepted, outcome)
}

pub fn judge(c: &Case) -> Result<Option<(String, String)>, String> {
    let stdin = cli::Stdin { bytes: &c.stdin.0, mode: if c.read_fails { StdinMode::Fail } else { StdinMode::Eof } };
    let inv = c.inv.clone();
    let pred = std::panic::catch_unwind(std::panic::AssertUnwindSafe(|| cli::predict(&inv, &NoFs, &stdin))).map_err(|_| "model panicked".to_string())?;
    if pred.why.starts_with("@inconclusive") || pred.end != End::Done {
        return Err("inconclusive".into());
    }
    let (got, outcome) = match std::panic::catch_unwind(std::panic::AssertUnwindSafe(|| run_system(c))) {
        Ok(x) => x,
        Err(_) => return Ok(Some(("I0".into(), "the library pieces panicked".into()))),
    };
    let want = pred.stdout();
    let lossy = |b: &[u8]| String::from_utf8_lossy(b).chars().take(200).collect::<String>();
    let partial = pred.why.starts_with("@partial-last");
    let stdout_ok = if partial {
        let n = pred.chunks.len().saturating_sub(1);
        got.starts_with(&pred.chunks[..n].concat())
    } else {
        got == want
    };
    if !stdout_ok {
        return Ok(Some((
            "I1".into(),
            format!("library stratum: bytes written differ from the model ({}): have {:?}, model {:?}", pred.why, lossy(&got), lossy(&want)),
        )));
    }
    // outcome class
    let ok = match (&outcome, pred.why.as_str()) {
        (Outcome::Ok, "completed") => true,
        (Outcome::Parse, w) if w.starts_with("input parse error") => true,
        // a failing read surfaces as an input error of the stream (the binary maps both to 5 or 2)
        (Outcome::Parse | Outcome::Io, w) if w.contains("read fail") || w.contains("stdin read failed") => true,
        (Outcome::Runtime | Outcome::Parse, w) if w.starts_with("uncaught error") => {
            // `input` turns an input error into a run-time error
            matches!(outcome, Outcome::Runtime) || pred.exits.contains(&2)
        }
        (Outcome::Halt(c), w) if w.starts_with("halt") => pred.exits.contains(&(c & 0xff)),
        (Outcome::Io, w) if w.starts_with("@partial-last") => true,
        (Outcome::Parse | Outcome::Io, w) if w.starts_with("input not decodable") => true,
        (Outcome::NoCompile, w) if w.contains("does not") => true,
        _ => false,
    };
    if !ok {
        return Ok(Some(("I2".into(), format!("library stratum: outcome {outcome:?}, model: {} {:?}", pred.why, pred.exits))));
    }
    Ok(None)
}

// -----------------------------------------------------------------------------------------

const FILTERS: &[&str] = &[
    ".", ".", "., .", "empty", "[.]", "input", "., input", "[., input]", "inputs", "[inputs]", "first(inputs)", "limit(2; inputs)",
    "[limit(1; inputs)], .", "if . == 2 then error(\"e2\") else . end", "if . == 1 then halt else . end", "if . == 2 then halt(7) else . end",
    "reduce inputs as $v (0; . + 1)", "foreach inputs as $v (0; . + 1)", "if . == 2 then input else . end", "input_filename",
    "tojson", "\"a\\u0000b\"", "(1, null)", "label $out | (., break $out, 9)", "first(., error(\"never\"))", "[., input] | add?", ".[]?",
    "try input catch \"none\"", "[.] | length", "$ENV.FOO", "$ARGS.positional",
];

const POOL: &[&str] = &["0", "1", "2", "3", "\"s\"", "null", "false", "[1,2]", "{\"a\":1,\"b\":[2]}", "1.5", "\"x y\"", "[]", "{}", "\"\\u00e9\\n\"", "-7", "100000000000000000000", "\"\""];

fn gen_doc(rng: &mut Rng, fmt: &str) -> Vec<u8> {
    let n = rng.usize(7);
    let numbers = rng.chance(1, 2);
    let mut out = Vec::new();
    for i in 0..n {
        match fmt {
            "json" => {
                let v = if numbers { i.to_string() } else { rng.pick(POOL).to_string() };
                out.extend_from_slice(v.as_bytes());
                out.extend_from_slice(rng.pick(&["\n", "\n", " ", "\n\n", "\t\n", "  "]).as_bytes());
            }
            "raw" => {
                out.extend_from_slice(rng.pick(&["abc", "", "x y", "1", "\u{fc}n\u{ef}", "{\"a\":1}"]).as_bytes());
                out.extend_from_slice(rng.pick(&["\n", "\n", "\r\n"]).as_bytes());
            }
            "raw0" => {
                out.extend_from_slice(rng.pick(&["abc", "", "x\ny", "1", "a b"]).as_bytes());
                out.push(0);
            }
            "csv" => out.extend_from_slice(match rng.usize(4) {
                0 => format!("a,b,{i}\n"),
                1 => format!("\"q\"\"x\",{i}\n"),
                2 => format!("{i}\n"),
                _ => format!("x y,,{i},\"m,n\"\n"),
            }.as_bytes()),
            "tsv" => out.extend_from_slice(match rng.usize(3) {
                0 => format!("a\tb\t{i}\n"),
                1 => format!("x\\ty\t{i}\n"),
                _ => format!("{i}\n"),
            }.as_bytes()),
            "cbor" => {
                let text = if numbers { i.to_string() } else { rng.pick(POOL).to_string() };
                let val = read::json::parse_single(text.as_bytes()).unwrap();
                let _ = jaq_all::fmts::write::cbor::write(&mut out, &val);
            }
            "yaml" => out.extend_from_slice(format!("---\n{}", rng.pick(&["a: 1\nb: [1, 2]\n", "- x\n- y\n", "7\n", "\"str\"\n"])).as_bytes()),
            _ => {}
        }
    }
    match fmt {
        "xml" => out.extend_from_slice(b"<a x=\"1\">t<b/></a>\n"),
        "toml" => out.extend_from_slice(b"a = 1\n[t]\nb = \"x\"\n"),
        "json" if rng.chance(1, 8) => out.extend_from_slice(*rng.pick(&[&b"{\"a\":"[..], b"}", b"[1,", b"tru", b"\"abc"])),
        "json" if rng.chance(1, 8) => {
            // no trailing delimiter
            while out.last().is_some_and(|b| b.is_ascii_whitespace()) {
                out.pop();
            }
        }
        _ => {}
    }
    out
}

pub fn gen_case(rng: &mut Rng) -> Case {
    let mut inv = Invocation::default();
    inv.env = vec![("FOO".into(), "bar baz".into())];
    let fmt = *rng.pick(&["json", "json", "json", "json", "raw", "raw0", "csv", "tsv", "cbor", "yaml", "xml", "toml"]);
    if fmt != "json" || rng.chance(1, 10) {
        inv.from = Some(fmt.into());
    }
    inv.null_input = rng.chance(1, 5);
    inv.slurp = rng.chance(1, 6);
    match rng.usize(12) {
        0 | 1 => inv.to = Some("raw".into()),
        2 => inv.to = Some("raw0".into()),
        3 => inv.to = Some(rng.pick(&["json", "yaml", "cbor", "toml", "xml", "csv", "tsv"]).to_string()),
        _ => {}
    }
    inv.join = rng.chance(1, 6);
    inv.compact = rng.chance(1, 3);
    inv.tab = rng.chance(1, 8);
    if rng.chance(1, 6) {
        inv.indent = Some(rng.usize(5));
    }
    inv.sort_keys = rng.chance(1, 5);
    inv.filter = Some(rng.pick(FILTERS).to_string());
    let stdin = gen_doc(rng, fmt);
    // benign delivery and acceptance schedules
    let mut steps = Vec::new();
    for _ in 0..rng.usize(16) {
        steps.push(if rng.chance(1, 6) { RStep::Interrupted } else { RStep::Chunk(1 + rng.usize(9) as u32) });
    }
    let plan = ReadPlan { steps, rest: *rng.pick(&[0u32, 1, 1, 2, 3, 5, 7, 64]), fail_at_end: false };
    let mut wsteps = Vec::new();
    for _ in 0..rng.usize(12) {
        wsteps.push(if rng.chance(1, 6) { WStep::Interrupted } else { WStep::Accept(rng.usize(6) as u32) });
    }
    let wplan = WritePlan { steps: wsteps, rest: *rng.pick(&[0u32, 0, 1, 2, 5]), flush_fail_after: None, sticky_fail: false };
    let streaming = matches!(fmt, "json" | "raw" | "raw0" | "csv" | "tsv" | "cbor");
    let read_fails = streaming && !inv.slurp && rng.chance(1, 10);
    let mut stdin = stdin;
    if read_fails && fmt == "json" && stdin.last().is_some_and(|b| !b.is_ascii_whitespace()) {
        // a bare scalar right before a failing read may be withheld (it might not be complete)
        stdin.push(b'\n');
    }
    Case { inv, stdin: simos::Blob(stdin), plan, wplan, read_fails }
}

fn minimise(c: &Case, class: &str) -> (Case, u32) {
    let mut cur = c.clone();
    let mut steps = 0;
    let still = |x: &Case| matches!(judge(x), Ok(Some((cl, _))) if cl == class);
    let cands: Vec<Box<dyn Fn(&mut Case)>> = vec![
        Box::new(|x| x.wplan = WritePlan::default()),
        Box::new(|x| x.plan.steps.clear()),
        Box::new(|x| x.inv.slurp = false),
        Box::new(|x| x.inv.to = None),
        Box::new(|x| x.inv.join = false),
        Box::new(|x| x.inv.compact = false),
        Box::new(|x| x.inv.sort_keys = false),
        Box::new(|x| x.inv.tab = false),
        Box::new(|x| x.inv.indent = None),
    ];
    for f in cands {
        let mut cand = cur.clone();
        f(&mut cand);
        if still(&cand) {
            cur = cand;
            steps += 1;
        }
    }
    (cur, steps)
}

pub fn case_out(cfg: &Cfg, i: u64) -> CaseOut {
    let mut rng = Rng::for_run(cfg.seed, "C17lib", i);
    let case = gen_case(&mut rng);
    let mut tally = Tally::default();
    let mut viol = None;
    let fmt = case.inv.from.clone().unwrap_or_else(|| "json".into());
    tally.add(format!("lib_runs:{fmt}"));
    let nsteps = case.plan.steps.len() + case.wplan.steps.len();
    match judge(&case) {
        Err(_) => tally.add("lib_inconclusive"),
        Ok(None) => {}
        Ok(Some((class, detail))) => {
            let (m, steps) = minimise(&case, &class);
            let mut fp = std::collections::BTreeMap::new();
            fp.insert("stratum".to_string(), "library".to_string());
            fp.insert("filter".to_string(), case.inv.filter.clone().unwrap_or_default());
            viol = Some(Violation {
                property: ID.into(),
                class,
                detail,
                fingerprint: fp,
                case: json!({"library_case": m}),
                seed: cfg.seed,
                run: 20_000_000 + i,
                minimised_steps: steps,
            });
        }
    }
    for s in &case.plan.steps {
        if matches!(s, RStep::Interrupted) {
            tally.add("lib_fault:read_interrupted");
        }
    }
    if case.read_fails {
        tally.add("lib_fault:read_error_at_end");
    }
    for s in &case.wplan.steps {
        match s {
            WStep::Interrupted => tally.add("lib_fault:write_interrupted"),
            WStep::Accept(n) if *n > 0 => tally.add("lib_fault:short_write"),
            _ => {}
        }
    }
    let key = format!("lib|{fmt}|{}|{}|{}{}", case.inv.filter.as_deref().unwrap_or("."), case.plan.rest, case.inv.null_input as u8, case.inv.slurp as u8);
    let digest = hash_str(&format!("{:?}{}", tally.0, viol.is_some()));
    let sample = (i < 2).then(|| json!({"stratum": "library", "filter": case.inv.filter, "from": fmt, "stdin": String::from_utf8_lossy(&case.stdin.0), "read_plan": case.plan, "write_plan": case.wplan}));
    CaseOut { digest, viol, tally: tally.0, keys: if nsteps > 0 || case.plan.rest > 0 { vec![key] } else { vec![] }, sample }
}

pub fn replay(v: &Violation) -> Result<Option<(String, String)>, Harness> {
    let case: Case = serde_json::from_value(v.case["library_case"].clone())?;
    judge(&case).map_err(Harness)
}
