//! C05 (restricted to the stream-facing surface) — documents arriving as faulty byte streams,
//! writers meeting failing sinks, and the command line under injected I/O faults never crash.
//! Engines: simlib (fault-injecting Read/BufRead/Write around the tree's readers and writers)
//! plus a panic-only pass over simos hard-fault worlds of the C16/C17/C18 generators.
//! NOT claimed: arbitrary filter text and arbitrary arguments to natives (an input search).
use crate::common::*;
use crate::rng::Rng;
use crate::simlib::io::{RStep, ReadPlan, SimReader, SimWriter, WStep, WritePlan};
use crate::worker::Worker;
use jaq_all::fmts::write::Writer;
use jaq_all::fmts::{read, Format};
use jaq_all::json::Val;
use serde::{Deserialize, Serialize};
use serde_json::json;
use simos::*;
use std::collections::{BTreeMap, BTreeSet};

pub const ID: &str = "C05";

#[derive(Clone, Debug, Serialize, Deserialize)]
pub struct Case {
    pub fmt: String,
    pub doc: Blob,
    pub slurp: bool,
    pub plan: ReadPlan,
    pub wplan: WritePlan,
    /// how the document was damaged (for the reader)
    pub damage: Vec<String>,
}

// -----------------------------------------------------------------------------------------
// seeds

const JSON_SEEDS: &[&str] = &[
    "{\"a\":[1,2.5,-3e2,\"x\\u00e9\\n\",null,true,false,{\"b\":{}}],\"c\":\"\\ud83d\\ude00\"}\n[1]\n\"s\" 123 1e999\n",
    "[[[[[[1]]]]]] {\"k\":{\"k\":{\"k\":[]}}} -0 0.0 1E+2 \"\\\\\\\"\\/\\b\\f\\r\\t\"\n",
    "NaN Infinity -Infinity nan 100000000000000000000000000 1.0000000000000000000001\n",
    "# comment\n{\"a\": 1, # c\n \"b\": [1, 2,], }\n",
    "b\"bytes\\xff\" {1: 2, [3]: null, {\"o\": 1}: true}\n",
];
const YAML_SEEDS: &[&str] = &[
    "---\na: 1\nb: [1, 2, {c: d}]\ns: |\n  block\n  text\nf: >-\n  folded\n  text\n...\n---\n- x\n- !!str 12\n- &anc {k: v}\n- *anc\n",
    "%YAML 1.2\n---\n? complex\n: value\n\"q\\u00e9\": 'single ''quoted'''\nnum: [0x1f, 0o17, 1e3, .inf, -.inf, .nan, ~, null, true, False]\n",
    "base: &b {x: 1}\nderived:\n  <<: *b\n  y: 2\nbin: !!binary aGVsbG8=\nts: 2001-12-14t21:59:43.10-05:00\n",
    "- - - deep\n    - list\n  - {a: [b, {c: [d]}]}\n--- scalar\n--- |\n literal\n",
];
const TOML_SEEDS: &[&str] = &[
    "title = \"x\"\nn = 1\nf = 1.5\nb = true\nd = 1979-05-27T07:32:00Z\narr = [1, [2, 3], \"s\"]\n[tab]\nk = \"v\"\n[tab.sub]\ninl = { a = 1, b = [2] }\n[[aot]]\nx = 1\n[[aot]]\nx = 2\n",
    "s = \"\"\"multi\nline\"\"\"\nl = 'lit'\n\"quoted key\" = 0x1f\nneg = -1_000\ninf = inf\nlt = 07:32:00\n",
];
const XML_SEEDS: &[&str] = &[
    "<?xml version=\"1.0\" encoding=\"UTF-8\"?>\n<!DOCTYPE r [<!ENTITY e \"v\">]>\n<r a=\"1\" b='2'><c>text &amp; &lt;more&gt; &#65;&#x42;</c><!-- comment --><d/><![CDATA[raw <data>]]><?pi target?></r>\n",
    "<a xmlns:x=\"u\"><x:b x:c=\"d\">t<e>u</e>v</x:b></a>\n<second/>\n",
    "<html><body><p>un<b>closed</b></p><br/></body></html>",
];
const CSV_SEEDS: &[&str] = &[
    "a,b,c\n1,\"q\"\"uoted\",3\n\"multi\nline\",,x\r\n,,\n",
    "1,2.5,true,null,\"\"\nsingle\n",
];
const TSV_SEEDS: &[&str] = &["a\tb\tc\n1\tx\\ty\\n\\\\\t3\n\t\t\n", "single\n\\N\t\\r\n"];
const RAW_SEEDS: &[&str] = &["line one\nline two\r\n\nlast without newline", "\u{e9}\u{1F600}\n\tx\n"];

fn cbor_seeds() -> Vec<Vec<u8>> {
    let mut v: Vec<Vec<u8>> = Vec::new();
    // written by the tree's own writer
    for s in JSON_SEEDS.iter().take(2) {
        let mut buf = Vec::new();
        for val in read::json::parse_many(s.as_bytes()).flatten() {
            let _ = jaq_all::fmts::write::cbor::write(&mut buf, &val);
        }
        v.push(buf);
    }
    // hand-made: indefinite lengths, tags, half floats, bignums, simple values, nested maps
    v.push(vec![0x9f, 0x01, 0x82, 0x02, 0x03, 0xbf, 0x61, 0x61, 0x7f, 0x61, 0x62, 0x61, 0x63, 0xff, 0xff, 0xff]);
    v.push(vec![0xc2, 0x49, 1, 0, 0, 0, 0, 0, 0, 0, 0, 0xc3, 0x41, 0xff, 0xf9, 0x3c, 0x00, 0xfa, 0x7f, 0xc0, 0, 0, 0xfb, 0x40, 0x09, 0x21, 0xfb, 0x54, 0x44, 0x2d, 0x18]);
    v.push(vec![0xd8, 0x20, 0x63, b'u', b'r', b'i', 0xd9, 0xd9, 0xf7, 0xa2, 0x01, 0x02, 0x81, 0x03, 0xf6, 0xf4, 0xf5, 0xf6, 0xf7, 0xf8, 0x20, 0x5f, 0x41, 0x01, 0x42, 0x02, 0x03, 0xff]);
    v.push(vec![0x1b, 0xff, 0xff, 0xff, 0xff, 0xff, 0xff, 0xff, 0xff, 0x3b, 0xff, 0xff, 0xff, 0xff, 0xff, 0xff, 0xff, 0xff, 0x5b, 0, 0, 0, 0, 0, 0, 0, 1, 0x00]);
    v
}

/// Stored program text (filter files, module files) - the other kind of byte stream jaq reads.
const JQ_SEEDS: &[&str] = &[
    "def f($x; g): [$x, g] | map(. + 1); . as [$a, {b: $c}] | f($a; $c) | \"s\\(. | tojson)\\t\\u00e9\\ud83d\\ude00\\n\" # comment\n",
    "reduce .[] as $x (0; . + $x) | foreach range(3) as $i (null; $i; [$i, .]) | label $out | (., break $out)",
    "{a: 1, \"b c\": [1, 2.5e3, -0.1], (\"k\" + \"y\"): .x?, $__loc__, @base64 \"x\\(.y)z\": @json} | .[\"b c\"][1:] |= map(. * 2) | del(.a) | to_entries",
    "import \"m\" as m {search: \"./lib\"}; include \"i\"; import \"d\" as $d; m::f($d) | if . == null then empty elif . > 0 then \"\\u0041\\uD83D\\uDE00\" else error(\"\\ud800\") end",
    ".a.b[0]?.c // \"d\" | (.e, .f) = 1 | .g += 2 | .h //= 3 | try error catch . | .. | select(type == \"number\" and . >= 1e1000 or not) | -(. % 7)",
    ". as {a: [$x, $y], $b} ?// [$x, $y, $b] | [limit(3; repeat($x))] | first(.[]), last, nth(1; .[]) | @sh \"echo \\(.)\", @uri, @csv, @tsv, @html, @text",
    "def fac: if . <= 1 then 1 else . * (. - 1 | fac) end; def g(f; $n): f | f; [range(0; 10; 3)] | map(fac) | g(.[1:]; 2) | input_line_number? // $ENV.HOME | ltrimstr(\"/\") | test(\"a+\"; \"gx\")",
    "\"\\(1 + 2) and \\(\"nested \\(\"deep \\(3)\")\") \\\\ \\\" \\/ \\b\\f\\r\" | [.[]?] | {(.[0]?): 1}? | $__prog_name?",
    // boundary cases of the escape syntax (most of them rejected): surrogate halves in every
    // combination, short and non-hex escapes, unknown escapes
    "\"\\ud83d\\ude00 \\ud83d\\ud83d \\ude00\\ud83d \\ud800 \\udfff \\udbff\\u0041\", \"\\u00\", \"\\u12G4\", \"\\q\", \"\\uFFFF\\u0000\"",
    "include \"\"; import \"\" as $d; import \"\" as m {search: \"\"}; include \"a\" {search: []}; module {}; m::f($d; $__loc__)",
    "1e999999, -0, 0x10, 1.e5, .5, 1__2, 99999999999999999999999999999999, 1e-99999, [.[1e1000:]], .[\"a\"]?[-1:][::], ..a, .. a, .a.[0], $__loc__.x, @nofmt \"x\"",
];

const FORMATS: &[&str] = &["json", "json", "yaml", "yaml", "cbor", "cbor", "toml", "xml", "xml", "csv", "tsv", "raw", "raw0", "jq", "jq"];

/// Random JSON text (bounded depth and size): the value behind a generated document.
fn gen_json(rng: &mut Rng, depth: u32, out: &mut String) {
    let leaf = depth == 0 || rng.chance(2, 5);
    if leaf {
        match rng.usize(12) {
            0 => out.push_str("null"),
            1 => out.push_str("true"),
            2 => out.push_str("false"),
            3 => out.push_str(&rng.range(-1000, 1000).to_string()),
            4 => out.push_str(*rng.pick(&["0", "-0", "1e3", "1.5", "-2.25e-3", "12345678901234567890123", "0.1", "1e400", "9007199254740993"])),
            5 => out.push_str("\"\""),
            6 => out.push_str(*rng.pick(&["\"a b\"", "\"null\"", "\"123\"", "\"true\"", "\"---\"", "\" lead\"", "\"trail \"", "\"a,b;c\\td\"", "\"<&>\\\"'\"", "\"- x\"", "\"k: v\"", "\"#c\""])),
            7 => out.push_str("\"\\u00e9\\ud83d\\ude00\\u0000\\n\\t\""),
            8 => {
                out.push('"');
                for _ in 0..rng.usize(40) {
                    out.push(*rng.pick(&['a', 'Z', '0', ' ', '_', '-', '.', 'é', 'ß', '中']));
                }
                out.push('"');
            }
            9 => out.push_str("[]"),
            10 => out.push_str("{}"),
            _ => out.push_str(&format!("{}.{}", rng.range(-99, 99), rng.below(1000))),
        }
        return;
    }
    if rng.chance(1, 2) {
        out.push('[');
        let n = rng.usize(5);
        for i in 0..n {
            if i > 0 {
                out.push(',');
            }
            gen_json(rng, depth - 1, out);
        }
        out.push(']');
    } else {
        out.push('{');
        let n = rng.usize(5);
        for i in 0..n {
            if i > 0 {
                out.push(',');
            }
            out.push_str(&format!("\"{}{}\":", *rng.pick(&["k", "key ", "a.b", "", "t", "c", "x-y", "é"]), i));
            gen_json(rng, depth - 1, out);
        }
        out.push('}');
    }
}

/// A document written by the tree's own writer for `fmt` from a generated value (None if the
/// value lies outside the format's domain).
fn generated_doc(rng: &mut Rng, fmt: &str) -> Option<Vec<u8>> {
    let format = Format::parse(fmt)?;
    let mut out = Vec::new();
    let n = 1 + rng.usize(3);
    for _ in 0..n {
        let mut text = String::new();
        match fmt {
            // rows of scalars / tables: shape the value for the format's domain
            "csv" | "tsv" => {
                text.push('[');
                for i in 0..rng.usize(5) {
                    if i > 0 {
                        text.push(',');
                    }
                    gen_json(rng, 0, &mut text);
                }
                text.push(']');
            }
            "toml" => {
                text.push_str("{\"a\":");
                gen_json(rng, 2, &mut text);
                text.push_str(",\"t\":{\"b\":");
                gen_json(rng, 1, &mut text);
                text.push_str("}}");
            }
            "xml" => text.push_str("{\"t\":\"r\",\"a\":{\"x\":\"1\"},\"c\":[\"text\",{\"t\":\"e\"},{\"t\":\"f\",\"c\":[\"<&>\"]}]}"),
            _ => gen_json(rng, 4, &mut text),
        }
        let val = read::json::parse_single(text.as_bytes()).ok()?;
        let writer = Writer { format, ..Default::default() };
        let mut buf = Vec::new();
        jaq_all::fmts::write::write(&mut buf, &writer, &val).ok()?;
        out.extend(buf);
        if fmt == "toml" || fmt == "xml" {
            break;
        }
    }
    Some(out)
}

fn seed_doc(rng: &mut Rng, fmt: &str) -> Vec<u8> {
    // one document in three is written by the tree's own writer from a generated value
    if fmt != "jq" && fmt != "raw" && fmt != "raw0" && rng.chance(1, 3) {
        if let Some(d) = generated_doc(rng, fmt) {
            return d;
        }
    }
    let pick = |rng: &mut Rng, xs: &[&str]| rng.pick(xs).as_bytes().to_vec();
    match fmt {
        "json" => pick(rng, JSON_SEEDS),
        "yaml" => pick(rng, YAML_SEEDS),
        "toml" => pick(rng, TOML_SEEDS),
        "xml" => pick(rng, XML_SEEDS),
        "csv" => pick(rng, CSV_SEEDS),
        "tsv" => pick(rng, TSV_SEEDS),
        "raw" => pick(rng, RAW_SEEDS),
        "raw0" => pick(rng, RAW_SEEDS).iter().map(|b| if *b == b'\n' { 0 } else { *b }).collect(),
        "cbor" => rng.pick(&cbor_seeds()).clone(),
        "jq" => pick(rng, JQ_SEEDS),
        _ => unreachable!(),
    }
}

/// Storage / transport damage.
fn damage(rng: &mut Rng, doc: &mut Vec<u8>) -> String {
    if doc.is_empty() {
        doc.push(rng.below(256) as u8);
        return "insert into empty".into();
    }
    let n = doc.len();
    let k = rng.usize(n);
    match rng.usize(11) {
        0 | 1 => {
            doc.truncate(k);
            format!("truncate@{k}")
        }
        2 | 3 => {
            let bit = rng.usize(8);
            doc[k] ^= 1 << bit;
            format!("bitflip@{k}.{bit}")
        }
        4 => {
            let len = 1 + rng.usize(16.min(n - k));
            for b in &mut doc[k..k + len] {
                *b = 0;
            }
            format!("zero@{k}+{len}")
        }
        5 => {
            let len = 1 + rng.usize(32.min(n - k));
            let block = doc[k..k + len].to_vec();
            let at = rng.usize(n + 1);
            doc.splice(at..at, block);
            format!("dup@{k}+{len}->{at}")
        }
        6 => {
            let len = 1 + rng.usize(16.min(n - k));
            let j = rng.usize(n - len + 1);
            for i in 0..len {
                if k + i < n && j + i < n {
                    doc.swap(k + i, j + i);
                }
            }
            format!("swap@{k}<->{j}+{len}")
        }
        7 => {
            let b = *rng.pick(&[0xffu8, 0x00, b'"', b'\\', b'{', b'[', b'<', b'&', b'\n', b'-', 0xc0, 0xed, 0xf4, 0x7f, 0x9f, 0xbf]);
            doc.insert(k, b);
            format!("insert {b:#x}@{k}")
        }
        8 => {
            doc.remove(k);
            format!("delete@{k}")
        }
        9 => {
            doc[k] = rng.below(256) as u8;
            format!("overwrite@{k}")
        }
        _ => {
            // repeat an opening token many times (deep nesting within the size bound)
            let tok: &[u8] = *rng.pick(&[&b"["[..], b"{\"a\":", b"<a>", b"- ", b"\x81", b"\x9f", b"[["]);
            let reps = 1 + rng.usize(200);
            let block: Vec<u8> = tok.iter().copied().cycle().take(tok.len() * reps).collect();
            doc.splice(k..k, block);
            format!("nest {reps}x@{k}")
        }
    }
}

fn gen_plan(rng: &mut Rng) -> ReadPlan {
    let rest = *rng.pick(&[0u32, 0, 1, 2, 3, 7, 64]);
    let mut steps = Vec::new();
    let n = rng.usize(12);
    for _ in 0..n {
        steps.push(match rng.usize(10) {
            0 | 1 => RStep::Interrupted,
            2 if rng.chance(1, 3) => RStep::Fail,
            _ => RStep::Chunk(1 + rng.usize(9) as u32),
        });
    }
    ReadPlan { steps, rest, fail_at_end: rng.chance(1, 8) }
}

fn gen_wplan(rng: &mut Rng) -> WritePlan {
    let mut steps = Vec::new();
    for _ in 0..rng.usize(10) {
        steps.push(match rng.usize(8) {
            0 => WStep::Interrupted,
            1 if rng.chance(1, 2) => WStep::Fail,
            _ => WStep::Accept(rng.usize(6) as u32),
        });
    }
    WritePlan {
        steps,
        rest: *rng.pick(&[0u32, 0, 1, 3]),
        flush_fail_after: rng.chance(1, 6).then(|| rng.usize(3) as u32),
        sticky_fail: rng.chance(1, 2),
    }
}

pub fn gen_case(rng: &mut Rng) -> Case {
    let fmt = *rng.pick(FORMATS);
    let mut doc = seed_doc(rng, fmt);
    let mut dmg = Vec::new();
    let n = *rng.pick(&[0usize, 1, 1, 1, 2, 3]);
    for _ in 0..n {
        dmg.push(damage(rng, &mut doc));
    }
    if doc.len() > 8192 {
        doc.truncate(8192);
    }
    Case { fmt: fmt.into(), doc: Blob(doc), slurp: rng.chance(1, 5), plan: gen_plan(rng), wplan: gen_wplan(rng), damage: dmg }
}

// -----------------------------------------------------------------------------------------
// running one case

thread_local! {
    static LAST_PANIC: std::cell::RefCell<String> = const { std::cell::RefCell::new(String::new()) };
}

pub fn install_panic_hook() {
    std::panic::set_hook(Box::new(|info| {
        let s = info.to_string();
        LAST_PANIC.with(|p| *p.borrow_mut() = s);
    }));
}

fn guarded<T>(what: &str, f: impl FnOnce() -> T) -> Result<T, (String, String)> {
    LAST_PANIC.with(|p| p.borrow_mut().clear());
    std::panic::catch_unwind(std::panic::AssertUnwindSafe(f)).map_err(|_| {
        let msg = LAST_PANIC.with(|p| p.borrow().clone());
        ("X1".to_string(), format!("panic in {what}: {}", msg.replace('\n', " ")))
    })
}

#[derive(Default)]
pub struct Stats {
    pub values: u64,
    pub errors: u64,
    pub read_calls: u64,
    pub polled_after_end: u64,
    pub polled_after_error: u64,
    pub write_failures: u64,
    pub writes_ok: u64,
}

/// Drain a value stream: stops at the first error; bounded number of pulls.
fn drain<'a>(what: &str, it: impl Iterator<Item = std::io::Result<Val>> + 'a, bound: usize, st: &mut Stats) -> Result<Vec<Val>, (String, String)> {
    let mut it = it;
    let mut vals = Vec::new();
    let mut pulls = 0usize;
    let mut ended = false;
    loop {
        pulls += 1;
        if pulls > bound {
            return Err(("X4".into(), format!("{what}: more than {bound} values from a {}-byte stream without reaching its end", bound - 16)));
        }
        match it.next() {
            None => {
                ended = true;
                break;
            }
            Some(Ok(v)) => {
                st.values += 1;
                vals.push(v)
            }
            Some(Err(_)) => {
                st.errors += 1;
                // `try input catch ..` followed by another `input`, or the main loop after it,
                // polls the stream again after an error: that must not crash either
                for _ in 0..3 {
                    st.polled_after_error += 1;
                    if it.next().is_none() {
                        break;
                    }
                }
                break;
            }
        }
    }
    // `input`/`inputs` and the main loop share one stream: it is polled again after its end
    if ended {
        for _ in 0..2 {
            st.polled_after_end += 1;
            let _ = it.next();
        }
    }
    Ok(vals)
}

fn fmt_of(s: &str) -> Format {
    Format::parse(s).expect("format")
}

/// A stored program (filter file / module file) met after storage damage: it compiles or is
/// rejected with diagnostics that render - it is never *run* (a damaged program may
/// legitimately loop for ever).
fn run_program(c: &Case, st: &mut Stats) -> Option<(String, String)> {
    let text = String::from_utf8_lossy(&c.doc.0).into_owned();
    let r = guarded("the lexer / parser / compiler on a stored program", || match jaq_all::data::compile(&text) {
        Ok(_) => (true, 0usize),
        Err(reports) => {
            let mut n = 0;
            for fr in &reports {
                let shown = jaq_all::load::FileReportsDisp::new(fr).to_string();
                n += shown.len();
            }
            (false, n)
        }
    });
    match r {
        Err(v) => Some(v),
        Ok((ok, rendered)) => {
            if ok {
                st.values += 1;
            } else {
                st.errors += 1;
                if rendered == 0 {
                    return Some(("X8".into(), "a rejected program produced no diagnostic text".into()));
                }
            }
            None
        }
    }
}

pub fn run_case(c: &Case, st: &mut Stats) -> Option<(String, String)> {
    if c.fmt == "jq" {
        return run_program(c, st);
    }
    let fmt = fmt_of(&c.fmt);
    let doc = &c.doc.0;
    let bound = doc.len() + 16;
    let stc = std::cell::RefCell::new(Stats::default());
    // (a) streaming reader under the delivery plan
    let r = guarded("read::read (streaming reader)", || {
        let s = match read::read_string(fmt, SimReader::new(doc.clone(), c.plan.clone())) {
            Ok(s) => s,
            Err(_) => return Ok(vec![]),
        };
        let rd = SimReader::new(doc.clone(), c.plan.clone());
        drain("streaming reader", read::read(fmt, rd, &s, c.slurp), bound, &mut stc.borrow_mut())
    });
    let streamed = match r {
        Err(v) => return Some(v),
        Ok(Err(v)) => return Some(v),
        Ok(Ok(v)) => v,
    };
    {
        let s2 = stc.borrow();
        st.values += s2.values;
        st.errors += s2.errors;
        st.polled_after_end += s2.polled_after_end;
        st.polled_after_error += s2.polled_after_error;
    }
    // (b) slice parser
    let r = guarded("read::parse (slice parser)", || {
        let bytes = bytes::Bytes::from(doc.clone());
        let s = match read::bytes_str(fmt, &bytes) {
            Ok(s) => s.to_string(),
            Err(_) => return Ok(vec![]),
        };
        drain("slice parser", read::parse(fmt, &bytes, &s, c.slurp), bound, &mut stc.borrow_mut())
    });
    let parsed = match r {
        Err(v) => return Some(v),
        Ok(Err(v)) => return Some(v),
        Ok(Ok(v)) => v,
    };
    // (c) the from* filter of the format
    if let Some(f) = from_filter(&c.fmt) {
        let r = guarded("from* filter", || {
            let input = Val::utf8_str(doc.clone());
            let runner = jaq_all::data::Runner::default();
            let mut n = 0usize;
            let _ = jaq_all::data::run(
                &runner,
                f,
                jaq_all::jaq_core::Vars::new([]),
                std::iter::once(Ok::<Val, String>(input)),
                |e| e,
                |v| {
                    n += 1;
                    if n > bound {
                        return Err("unbounded".to_string());
                    }
                    v.map(|_| ()).map_err(|_| "error".to_string())
                },
            );
            n
        });
        match r {
            Err(v) => return Some(v),
            Ok(n) if n > bound => return Some(("X4".into(), "from* filter: unbounded outputs".into())),
            _ => {}
        }
    }
    // (d) writers meeting a faulty sink: every value that was read is written in every format
    for v in streamed.iter().chain(parsed.iter()).take(6) {
        for to in ["json", "yaml", "cbor", "toml", "xml", "csv", "tsv", "raw", "raw0"] {
            let writer = Writer { format: fmt_of(to), ..Default::default() };
            let r = guarded("write::write (value writer)", || {
                let mut plain = Vec::new();
                let plain_res = jaq_all::fmts::write::write(&mut plain, &writer, v);
                let mut w = SimWriter::new(c.wplan.clone());
                let res = jaq_all::fmts::write::write(&mut w, &writer, v);
                (plain_res.is_ok(), plain, res.is_ok(), w.accepted, w.failed)
            });
            match r {
                Err(v) => return Some(v),
                Ok((plain_ok, plain, ok, accepted, failed)) => {
                    if ok {
                        st.writes_ok += 1;
                    } else {
                        st.write_failures += 1;
                    }
                    if plain_ok && ok && accepted != plain {
                        return Some((
                            "X6".into(),
                            format!("writer --to {to}: a sink with short/interrupted writes accepted {} bytes that differ from the {} bytes written to a plain sink", accepted.len(), plain.len()),
                        ));
                    }
                    if plain_ok && !ok && !plain.starts_with(&accepted) {
                        return Some(("X6".into(), format!("writer --to {to}: bytes accepted before the failure are not a prefix of the plain output")));
                    }
                    if ok && failed {
                        return Some(("X7".into(), format!("writer --to {to}: the sink reported a failure but the writer returned success")));
                    }
                }
            }
        }
    }
    None
}

fn from_filter(fmt: &str) -> Option<&'static jaq_all::data::Filter> {
    // per thread and leaked: the harness itself must not rely on `Filter: Send + Sync`
    // (that bound is C19's subject; a tree without it must still build this driver)
    thread_local! {
        static FILTERS: &'static BTreeMap<&'static str, jaq_all::data::Filter> = {
            let mut m = BTreeMap::new();
            for (k, code) in [
                ("json", "fromjson"),
                ("yaml", "fromyaml"),
                ("cbor", "tobytes | fromcbor"),
                ("toml", "fromtoml"),
                ("xml", "fromxml"),
                ("csv", "fromcsv"),
                ("tsv", "fromtsv"),
            ] {
                if let Ok(f) = jaq_all::data::compile(code) {
                    m.insert(k, f);
                }
            }
            Box::leak(Box::new(m))
        };
    }
    FILTERS.with(|m| m.get(fmt))
}

// -----------------------------------------------------------------------------------------

fn fingerprint(c: &Case, class: &str, detail: &str) -> BTreeMap<String, String> {
    let mut m = BTreeMap::new();
    m.insert("fmt".into(), c.fmt.clone());
    m.insert("class".into(), class.into());
    // the panic location (file:line) identifies the defect
    let loc = detail.split(" at ").nth(1).unwrap_or("").split(':').take(2).collect::<Vec<_>>().join(":");
    m.insert("where".into(), loc);
    m
}

fn minimise(c: &Case, class: &str) -> (Case, u32) {
    let mut cur = c.clone();
    let mut steps = 0;
    let mut budget = 400;
    let still = |x: &Case| {
        let mut st = Stats::default();
        matches!(run_case(x, &mut st), Some((cl, _)) if cl == class)
    };
    // simpler plans first
    for f in [
        |x: &mut Case| x.plan = ReadPlan::default(),
        |x: &mut Case| x.wplan = WritePlan::default(),
        |x: &mut Case| x.slurp = false,
    ] {
        let mut cand = cur.clone();
        f(&mut cand);
        if still(&cand) {
            cur = cand;
            steps += 1;
        }
    }
    // delta debugging on the document bytes
    let mut chunk = cur.doc.0.len() / 2;
    while chunk >= 1 && budget > 0 {
        let mut i = 0;
        let mut progress = false;
        while i < cur.doc.0.len() && budget > 0 {
            let mut cand = cur.clone();
            let end = (i + chunk).min(cand.doc.0.len());
            cand.doc.0.drain(i..end);
            budget -= 1;
            if still(&cand) {
                cur = cand;
                steps += 1;
                progress = true;
            } else {
                i += chunk;
            }
        }
        if !progress {
            chunk /= 2;
        }
    }
    (cur, steps)
}

pub fn case_out(cfg: &Cfg, i: u64) -> CaseOut {
    install_panic_hook();
    let mut rng = Rng::for_run(cfg.seed, ID, i);
    let case = gen_case(&mut rng);
    let mut st = Stats::default();
    let mut tally = Tally::default();
    let v = run_case(&case, &mut st);
    tally.add(format!("fmt:{}", case.fmt));
    for d in &case.damage {
        tally.add(format!("fault:{}", d.split(['@', ' ']).next().unwrap_or("")));
    }
    for s in &case.plan.steps {
        match s {
            RStep::Interrupted => tally.add("fault:read_interrupted"),
            RStep::Fail => tally.add("fault:read_error"),
            _ => {}
        }
    }
    if case.plan.fail_at_end {
        tally.add("fault:read_error_at_end");
    }
    tally.add_n("values_read", st.values);
    tally.add_n("reach:polled_after_end", st.polled_after_end);
    tally.add_n("reach:polled_after_error", st.polled_after_error);
    tally.add_n("reach:write_failed", st.write_failures);
    tally.add_n("reach:write_ok", st.writes_ok);
    let key = format!("{}|{}|{}", case.fmt, case.damage.iter().map(|d| d.split(['@', ' ']).next().unwrap_or("")).collect::<Vec<_>>().join("+"), st.values.min(3));
    let nontrivial = !case.damage.is_empty() || !case.plan.steps.is_empty();
    let viol = v.map(|(class, detail)| {
        let (m, steps) = minimise(&case, &class);
        Violation {
            property: ID.into(),
            fingerprint: fingerprint(&m, &class, &detail),
            class,
            detail,
            case: serde_json::to_value(&m).unwrap(),
            seed: cfg.seed,
            run: i,
            minimised_steps: steps,
        }
    });
    let sample = (i < 4).then(|| json!({"format": case.fmt, "damage": case.damage, "document": String::from_utf8_lossy(&case.doc.0).chars().take(160).collect::<String>(), "read_plan": case.plan, "values_read": st.values}));
    let digest = hash_str(&format!("{:?}{key}{:?}", tally.0, viol.as_ref().map(|v| &v.class)));
    CaseOut { digest, viol, tally: tally.0, keys: if nontrivial { vec![key] } else { vec![] }, sample }
}

fn crash_violation(cfg: &Cfg, i: u64, how: &str) -> Violation {
    let mut rng = Rng::for_run(cfg.seed, ID, i);
    let case = gen_case(&mut rng);
    Violation {
        property: ID.into(),
        class: "X2".into(),
        detail: format!("reading a {}-byte {} document ({}) {how}", case.doc.0.len(), case.fmt, case.damage.join(", ")),
        fingerprint: fingerprint(&case, "X2", how),
        case: serde_json::to_value(&case).unwrap(),
        seed: cfg.seed,
        run: i,
        minimised_steps: 0,
    }
}

/// Panic-only pass over hard-fault worlds of the other simos generators.
fn cli_pass(cfg: &Cfg, tally: &mut Tally, keys: &mut BTreeSet<String>) -> Result<Vec<Violation>, Harness> {
    let n = cfg.n(240, 2400);
    let idx: Vec<u64> = (0..n as u64).collect();
    let res: Vec<Result<(Option<Violation>, Tally, String), Harness>> = crate::par::par_map(
        &idx,
        cfg.simos_workers,
        |k| Worker::new(cfg, k),
        |wk, _, &i| {
            let wk = wk.as_mut().map_err(|e| Harness(e.0.clone()))?;
            wk.tally = Tally::default();
            let mut rng = Rng::for_run(cfg.seed, "C05cli", i);
            let (world, what, case_json): (World, &str, serde_json::Value) = match i % 3 {
                0 => {
                    let mut c = super::c17::gen_case(&mut rng);
                    // make sure some hard fault is present
                    if c.faults.is_empty() && c.stdin.end == StdinEnd::Eof {
                        c.faults.push(Fault {
                            at: At::Nth { class: *rng.pick(&[Class::Read, Class::Write, Class::Open, Class::Map, Class::Stat]), obj: Obj::Any, n: rng.usize(6) as u32, sticky: rng.chance(1, 2) },
                            kind: FaultKind::Fail(*rng.pick(&[libc::EIO, libc::ENOSPC, libc::EACCES, libc::ENOMEM, libc::EBADF])),
                            sig: None,
                        });
                    }
                    (c.world(), "C17 world", serde_json::to_value(&c)?)
                }
                1 => {
                    let mut c = super::c16::gen_case(&mut rng);
                    c.faults.push(Fault {
                        at: At::Nth { class: *rng.pick(&[Class::Read, Class::Open, Class::Stat]), obj: Obj::AnyFile, n: rng.usize(8) as u32, sticky: rng.chance(1, 2) },
                        kind: FaultKind::Fail(*rng.pick(&[libc::EIO, libc::EACCES, libc::ELOOP, libc::ENAMETOOLONG])),
                        sig: None,
                    });
                    (c.world(), "C16 world", serde_json::to_value(&c)?)
                }
                _ => {
                    let c = super::c18::gen_case(&mut rng);
                    let mut w = World { argv: { let mut a = vec!["-i".to_string()]; a.extend(c.opts.iter().cloned()); a.push(c.filter.clone()); a.extend(c.args.iter().cloned()); a }, mount_boundary: rng.chance(1, 2), ..c.world.clone() };
                    w.faults.push(Fault {
                        at: At::Nth { class: *rng.pick(&[Class::Read, Class::Write, Class::Open, Class::Rename, Class::Mode, Class::Stat, Class::Map, Class::Unlink, Class::Cwd]), obj: Obj::Any, n: rng.usize(5) as u32, sticky: rng.chance(1, 3) },
                        kind: FaultKind::Fail(*rng.pick(&[libc::EIO, libc::ENOSPC, libc::EACCES, libc::EPERM, libc::EXDEV, libc::ENOENT])),
                        sig: None,
                    });
                    (w.clone(), "C18 world", serde_json::to_value(&w)?)
                }
            };
            let h = wk.run(&world)?;
            record_digest(10_000_000 + i, h.digest());
            let mut t = Tally::default();
            t.add(format!("cli_runs:{what}"));
            for f in &h.fired {
                t.add(format!("cli_fired:{}", f.split(' ').nth(1).unwrap_or("?")));
            }
            let crashed = match h.exit {
                Exit::Exited(101) => Some(format!("panicked (exit 101): {}", String::from_utf8_lossy(&h.stderr.0).chars().take(300).collect::<String>())),
                Exit::Signaled(s) => Some(format!("died with signal {s}")),
                Exit::Hung => Some("hung".to_string()),
                _ => None,
            };
            let key = format!("{what}|{}|{:?}", h.fired.first().map(|f| f.split(' ').skip(1).collect::<Vec<_>>().join(" ")).unwrap_or_default(), h.exit);
            let v = crashed.map(|d| {
                let mut fp = BTreeMap::new();
                fp.insert("class".into(), "X3".into());
                fp.insert("fmt".into(), what.into());
                Violation {
                    property: ID.into(),
                    class: "X3".into(),
                    detail: format!("jaq {:?} under {:?}: {d}", world.argv, h.fired),
                    fingerprint: fp,
                    case: json!({"cli_world": world, "origin": case_json}),
                    seed: cfg.seed,
                    run: 10_000_000 + i,
                    minimised_steps: 0,
                }
            });
            t.merge(&wk.tally);
            Ok((v, t, key))
        },
    );
    let mut out = Vec::new();
    for r in res {
        let (v, t, k) = r?;
        tally.merge(&t);
        keys.insert(k);
        out.extend(v);
    }
    Ok(out)
}

pub fn check(cfg: &Cfg) -> Result<i32, Harness> {
    let started = std::time::Instant::now();
    let n = cfg.n(120_000, 2_400_000) as u64;
    let results = crate::par::proc_map(cfg, ID, n, 45)?;
    let mut tally = Tally::default();
    let mut keys = BTreeSet::new();
    let mut violations = Vec::new();
    let mut samples = Vec::new();
    let mut evaluations = 0u64;
    for (i, r) in results.into_iter().enumerate() {
        evaluations += 1;
        match r {
            crate::par::CaseEnd::Done(o) => {
                record_digest(i as u64, o.digest);
                tally.merge(&Tally(o.tally));
                keys.extend(o.keys);
                violations.extend(o.viol);
                samples.extend(o.sample);
            }
            crate::par::CaseEnd::Crashed(how) => violations.push(crash_violation(cfg, i as u64, &format!("killed the process ({how})"))),
            crate::par::CaseEnd::Hung => violations.push(crash_violation(cfg, i as u64, "did not come back within 45 s")),
            crate::par::CaseEnd::Skipped => evaluations -= 1,
        }
    }
    let cli_viol = cli_pass(cfg, &mut tally, &mut keys)?;
    evaluations += tally.get("traced_runs");
    violations.extend(cli_viol);
    let pick = |p: &str| -> BTreeMap<String, u64> {
        tally.0.iter().filter(|(k, _)| k.starts_with(p)).map(|(k, v)| (k[p.len()..].to_string(), *v)).collect()
    };
    let ev = Evidence {
        property: ID,
        level: "exploration",
        coverage: json!({
            "evaluations": evaluations,
            "distinct_nontrivial": keys.len(),
            "rule": "RESTRICTED SCOPE: the stream-facing surface only. Each library case takes a seed document of one format (JSON/XJON, YAML, CBOR, TOML, XML, CSV, TSV, raw, raw0; hand-written to cover the syntax; one in three is instead written by the tree's own writer from a generated value of bounded depth) or a stored program text (`jq`: what a filter file or module file holds; it is only compiled and its diagnostics rendered, never run), applies 0-3 storage/transport faults (truncation at a byte, bit flip, zeroed block, duplicated block, swapped blocks, inserted/deleted/overwritten byte, repeated opening token) and a delivery plan (chunk sizes 1..64, Interrupted, hard read error at a step or at the end), and runs (a) the streaming reader read::read over a fault-injecting BufRead, (b) the slice parser read::parse, (c) the from* filter, (d) every value writer on the values obtained, against a sink with short writes, Interrupted, write and flush failures. Oracle: no panic (catch_unwind; debug assertions and overflow checks on), no crash or hang of the worker process (1 GiB stack, 6 GiB address space), at most len+16 pulls up to the end or first error, polling twice after the end and up to three times after an error is harmless, a writer on a benign sink produces the plain bytes and on a failing sink returns the error. CLI pass: worlds of the C16/C17/C18 generators with an injected errno on a random read/write/open/stat/map/rename/chmod call; oracle: exit is not 101 / a signal / a hang. distinct = distinct (format, fault kinds, min(values,3)) plus distinct (world kind, fired fault, exit); trivial = undamaged document with the default plan.",
            "by_format": pick("fmt:"),
            "faults_injected": pick("fault:"),
            "reach_probes": pick("reach:"),
            "values_read": tally.get("values_read"),
            "cli_runs": pick("cli_runs:"),
            "cli_faults_fired": pick("cli_fired:"),
            "not_covered": "arbitrary argument values to built-in filters, and filter text beyond what storage damage of the seed programs reaches (a search over inputs, not over faults or schedules): not decided by this technique, not claimed",
            "real_vs_stub": {"real": ["jaq-fmts readers/writers, jaq-json reader/writer, from*/to* natives, the jaq binary (CLI pass)"], "simulated": ["Read/BufRead source with chunking, EINTR, hard errors", "Write sink with short writes, EINTR, failures", "storage corruption of the document", "errno injection at the system-call boundary (CLI pass)"]},
            "samples": samples,
        }),
        assumptions: vec![
            "scope restricted to documents and stored program text met as faulty byte streams, writers on faulty sinks and the CLI under I/O faults; native arguments are not explored, filter text only as far as storage damage of the seed programs reaches".into(),
            "documents are at most 8 KiB, so stack exhaustion by nesting (excepted by the statement) cannot be the cause of a crash with a 1 GiB stack".into(),
        ],
    };
    finish(cfg, ev, violations, started)
}

pub fn replay(cfg: &Cfg, v: &Violation) -> Result<Option<(String, String)>, Harness> {
    if let Some(w) = v.case.get("cli_world") {
        let world: World = serde_json::from_value(w.clone())?;
        let mut wk = Worker::new(cfg, 0)?;
        let h = wk.run(&world)?;
        return Ok(match h.exit {
            Exit::Exited(101) => Some(("X3".into(), "panicked (exit 101)".into())),
            Exit::Signaled(s) => Some(("X3".into(), format!("died with signal {s}"))),
            Exit::Hung => Some(("X3".into(), "hung".into())),
            _ => None,
        });
    }
    install_panic_hook();
    let case: Case = serde_json::from_value(v.case.clone())?;
    let mut st = Stats::default();
    Ok(run_case(&case, &mut st))
}
