//! The only source of randomness: splitmix64 to derive per-run states, xoshiro256** to draw.
#[derive(Clone, Debug)]
pub struct Rng {
    s: [u64; 4],
}

pub fn splitmix(x: &mut u64) -> u64 {
    *x = x.wrapping_add(0x9E3779B97F4A7C15);
    let mut z = *x;
    z = (z ^ (z >> 30)).wrapping_mul(0xBF58476D1CE4E5B9);
    z = (z ^ (z >> 27)).wrapping_mul(0x94D049BB133111EB);
    z ^ (z >> 31)
}

pub fn fnv(s: &str) -> u64 {
    let mut h = 0xcbf29ce484222325u64;
    for b in s.bytes() {
        h ^= b as u64;
        h = h.wrapping_mul(0x100000001b3);
    }
    h
}

impl Rng {
    /// State for run `i` of `property` under `seed`: independent of workers and order.
    pub fn for_run(seed: u64, property: &str, i: u64) -> Self {
        let mut x = seed ^ fnv(property).rotate_left(17) ^ i.wrapping_mul(0xD6E8FEB86659FD93);
        let s = [
            splitmix(&mut x),
            splitmix(&mut x),
            splitmix(&mut x),
            splitmix(&mut x),
        ];
        Rng { s }
    }
    pub fn next(&mut self) -> u64 {
        let r = self.s[1].wrapping_mul(5).rotate_left(7).wrapping_mul(9);
        let t = self.s[1] << 17;
        self.s[2] ^= self.s[0];
        self.s[3] ^= self.s[1];
        self.s[1] ^= self.s[2];
        self.s[0] ^= self.s[3];
        self.s[2] ^= t;
        self.s[3] = self.s[3].rotate_left(45);
        r
    }
    /// uniform in 0..n (n > 0)
    pub fn below(&mut self, n: u64) -> u64 {
        debug_assert!(n > 0);
        ((self.next() as u128 * n as u128) >> 64) as u64
    }
    pub fn usize(&mut self, n: usize) -> usize {
        self.below(n as u64) as usize
    }
    /// uniform in lo..=hi
    pub fn range(&mut self, lo: i64, hi: i64) -> i64 {
        lo + self.below((hi - lo + 1) as u64) as i64
    }
    pub fn chance(&mut self, num: u64, den: u64) -> bool {
        self.below(den) < num
    }
    pub fn pick<'a, T>(&mut self, xs: &'a [T]) -> &'a T {
        &xs[self.usize(xs.len())]
    }
    pub fn shuffle<T>(&mut self, xs: &mut [T]) {
        for i in (1..xs.len()).rev() {
            let j = self.usize(i + 1);
            xs.swap(i, j);
        }
    }
    pub fn fork(&mut self) -> Rng {
        let mut x = self.next();
        Rng {
            s: [
                splitmix(&mut x),
                splitmix(&mut x),
                splitmix(&mut x),
                splitmix(&mut x),
            ],
        }
    }
}
