//! One worker = one sandbox + its own counters.
use crate::common::{Cfg, Harness, Tally};
use simos::{History, Sandbox, World};

pub struct Worker {
    pub sb: Sandbox,
    pub tally: Tally,
    pub runs: u64,
    pub ops: u64,
}

impl Worker {
    pub fn new(cfg: &Cfg, k: usize) -> Result<Self, Harness> {
        if !cfg.exe.exists() {
            return Err(Harness(format!(
                "jaq binary {} not found (run ./vf setup)",
                cfg.exe.display()
            )));
        }
        let base = simos::tracer::scratch_base().join(format!("w{k:02}"));
        let sb = Sandbox::new(&base, &cfg.exe)?;
        Ok(Worker {
            sb,
            tally: Tally::default(),
            runs: 0,
            ops: 0,
        })
    }
    pub fn run(&mut self, w: &World) -> Result<History, Harness> {
        let h = simos::run(&self.sb, w).map_err(|e| Harness(e.to_string()))?;
        self.runs += 1;
        self.ops += h.ops.len() as u64;
        self.tally.add("traced_runs");
        self.tally.add_n("steps", h.counted as u64);
        Ok(h)
    }
}
