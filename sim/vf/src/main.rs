#![allow(dead_code)]
//! `vf` — driver of the deterministic-simulation checks (see /verif/DESIGN.md).
mod checks;
mod common;
mod model;
mod par;
mod rng;
mod worker;

use common::*;

fn usage() -> ! {
    eprintln!("usage: vf check <id> [--tier quick|thorough] | vf replay <file> | vf selftest <name>");
    std::process::exit(2)
}

fn run() -> Result<i32, Harness> {
    let args: Vec<String> = std::env::args().skip(1).collect();
    let mut cfg = Cfg::from_env();
    let mut pos = Vec::new();
    let mut it = args.iter();
    while let Some(a) = it.next() {
        match a.as_str() {
            "--tier" => {
                cfg.tier = match it.next().map(|s| s.as_str()) {
                    Some("thorough") => Tier::Thorough,
                    Some("quick") => Tier::Quick,
                    _ => usage(),
                }
            }
            "--seed" => cfg.seed = it.next().and_then(|s| s.parse().ok()).unwrap_or_else(|| usage()),
            _ => pos.push(a.clone()),
        }
    }
    println!("VERIF_SEED={} tier={} workers={}", cfg.seed, cfg.tier.name(), cfg.workers);
    match pos.first().map(|s| s.as_str()) {
        Some("check") => match pos.get(1).map(|s| s.as_str()) {
            Some("C18") => checks::c18::check(&cfg),
            Some("C17") => checks::c17::check(&cfg),
            Some("C16") => checks::c16::check(&cfg),
            Some("C06") => checks::c06::check(&cfg),
            _ => usage(),
        },
        Some("replay") => {
            let p = pos.get(1).unwrap_or_else(|| usage());
            let v: Violation = serde_json::from_str(&std::fs::read_to_string(p)?)?;
            let got = match v.property.as_str() {
                "C18" => checks::c18::replay(&cfg, &v)?,
                "C17" => checks::c17::replay(&cfg, &v)?,
                "C16" => checks::c16::replay(&cfg, &v)?,
                "C06" => checks::c06::replay(&cfg, &v)?,
                other => return Err(Harness(format!("no replay for {other}"))),
            };
            match got {
                Some((class, detail)) => {
                    println!("VIOLATION property={} replay={} class={} detail={}", v.property, p, class, detail);
                    if class != v.class {
                        println!("note: recorded class was {}", v.class);
                    }
                    Ok(1)
                }
                None => {
                    println!("replay of {p}: property held (no violation reproduced)");
                    Ok(0)
                }
            }
        }
        _ => usage(),
    }
}

fn main() {
    let code = match run() {
        Ok(c) => c,
        Err(e) => {
            eprintln!("HARNESS-ERROR: {}", e.0);
            2
        }
    };
    // sandboxes are removed by their owners' Drop; remove the per-process base as well
    let _ = std::fs::remove_dir_all(simos::tracer::scratch_base());
    std::process::exit(code)
}
