fn main() {
    let exe = std::path::PathBuf::from(std::env::args().nth(1).unwrap());
    let sb = simos::Sandbox::new(&simos::tracer::scratch_base().join("w0"), &exe).unwrap();
    let w = simos::World {
        files: vec![simos::FileSpec::file("w/f.json", "{\"a\": 1}\n", 0o644)],
        cwd: "w".into(),
        env: vec![],
        argv: vec!["-i".into(), ".a".into(), "f.json".into()],
        ..Default::default()
    };
    let t = std::time::Instant::now();
    let h = simos::run(&sb, &w).unwrap();
    eprintln!("{:?}", t.elapsed());
    for o in &h.ops { println!("{:?} {} {:?} {:?} fd={:?} obj={:?} ret={} {:?}", o.seq, o.name, o.path, o.path2, o.fd, o.obj, o.ret, o.injected); }
    println!("{:?} {:?} {:?}", h.exit, String::from_utf8_lossy(&h.stdout.0), String::from_utf8_lossy(&h.stderr.0));
    for (p, f) in &h.files_after { println!("{p} {:o} {:?}", f.mode, String::from_utf8_lossy(&f.bytes.0)); }
}
