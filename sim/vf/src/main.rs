#![allow(dead_code)]
//! `vf` — driver of the deterministic-simulation checks (see /verif/DESIGN.md).
mod checks;
mod common;
mod model;
mod par;
mod rng;
mod simlib;
mod worker;

use common::*;

fn usage() -> ! {
    eprintln!("usage: vf check <id> [--tier quick|thorough] | vf replay <file> | vf selftest <name>");
    std::process::exit(2)
}

/// properties whose cases run the interpreter inside the harness process: isolated in workers
const IN_PROCESS: &[&str] = &["C03", "C05"];

fn replay_here(cfg: &Cfg, p: &str) -> Result<i32, Harness> {
    let v: Violation = serde_json::from_str(&std::fs::read_to_string(p)?)?;
    let got = match v.property.as_str() {
        "C18" => checks::c18::replay(cfg, &v)?,
        "C17" => checks::c17::replay(cfg, &v)?,
        "C16" => checks::c16::replay(cfg, &v)?,
        "C06" => checks::c06::replay(cfg, &v)?,
        "C03" => checks::c03::replay(cfg, &v)?,
        "C05" => checks::c05::replay(cfg, &v)?,
        "C19" => checks::c19::replay(cfg, &v)?,
        other => return Err(Harness(format!("no replay for {other}"))),
    };
    match got {
        Some((class, detail)) => {
            println!("VIOLATION property={} replay={} class={} detail={}", v.property, p, class, detail.replace('\n', " | "));
            if class != v.class {
                println!("note: recorded class was {}", v.class);
            }
            Ok(1)
        }
        None => {
            println!("replay of {p}: property held (no violation reproduced)");
            Ok(0)
        }
    }
}

fn big_stack<T: Send + 'static>(f: impl FnOnce() -> T + Send + 'static) -> T {
    std::thread::Builder::new()
        .stack_size(1 << 30)
        .spawn(f)
        .expect("spawn")
        .join()
        .unwrap_or_else(|_| std::process::exit(101))
}

fn run() -> Result<i32, Harness> {
    let args: Vec<String> = std::env::args().skip(1).collect();
    let mut cfg = Cfg::from_env();
    let mut pos = Vec::new();
    let mut it = args.iter();
    while let Some(a) = it.next() {
        match a.as_str() {
            "--tier" => {
                cfg.tier = match it.next().map(|s| s.as_str()) {
                    Some("thorough") => Tier::Thorough,
                    Some("quick") => Tier::Quick,
                    _ => usage(),
                }
            }
            "--seed" => cfg.seed = it.next().and_then(|s| s.parse().ok()).unwrap_or_else(|| usage()),
            _ => pos.push(a.clone()),
        }
    }
    let arg = |i: usize| pos.get(i).map(|s| s.as_str());
    match arg(0) {
        Some("check") => {
            println!("VERIF_SEED={} tier={} workers={}", cfg.seed, cfg.tier.name(), cfg.workers);
            match arg(1) {
                Some("C18") => checks::c18::check(&cfg),
                Some("C17") => checks::c17::check(&cfg),
                Some("C16") => checks::c16::check(&cfg),
                Some("C06") => checks::c06::check(&cfg),
                Some("C03") => checks::c03::check(&cfg),
                Some("C05") => checks::c05::check(&cfg),
                Some("C19") => checks::c19::check(&cfg),
                _ => usage(),
            }
        }
        // child side of in-process checks
        Some("worker") => {
            let id = arg(1).unwrap_or_else(|| usage()).to_string();
            let num = |i: usize| -> u64 { arg(i).and_then(|s| s.parse().ok()).unwrap_or_else(|| usage()) };
            let (start, stride, n) = (num(2), num(3), num(4));
            big_stack(move || {
                par::worker_loop(start, stride, n, |i| match id.as_str() {
                    "C03" => checks::c03::case_out(&cfg, i),
                    "C05" => checks::c05::case_out(&cfg, i),
                    "C17lib" => checks::c17lib::case_out(&cfg, i),
                    _ => usage(),
                })
            });
            Ok(0)
        }
        Some("replay-inner") => {
            let p = arg(1).unwrap_or_else(|| usage()).to_string();
            big_stack(move || replay_here(&cfg, &p))
        }
        Some("replay") => {
            let p = arg(1).unwrap_or_else(|| usage());
            let v: Violation = serde_json::from_str(&std::fs::read_to_string(p)?)?;
            if IN_PROCESS.contains(&v.property.as_str()) {
                let (code, out, abnormal) = par::isolated(&["replay-inner", p], 60)?;
                print!("{out}");
                match abnormal {
                    Some(how) => {
                        println!(
                            "VIOLATION property={} replay={} class={} detail=the replayed case {how} (stack or memory exhausted, or endless work before an output)",
                            v.property, p, v.class
                        );
                        Ok(1)
                    }
                    None => Ok(code.unwrap_or(2)),
                }
            } else {
                replay_here(&cfg, p)
            }
        }
        _ => usage(),
    }
}

fn main() {
    let code = match run() {
        Ok(c) => c,
        Err(e) => {
            eprintln!("HARNESS-ERROR: {}", e.0);
            2
        }
    };
    // sandboxes are removed by their owners' Drop; remove the per-process base as well
    let _ = std::fs::remove_dir_all(simos::tracer::scratch_base());
    std::process::exit(code)
}
