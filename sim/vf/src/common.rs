//! Configuration, violations, replay files, known findings, evidence.
use serde::{Deserialize, Serialize};
use serde_json::{json, Value};
use std::collections::BTreeMap;
use std::path::PathBuf;

#[derive(Clone, Copy, Debug, PartialEq, Eq)]
pub enum Tier {
    Quick,
    Thorough,
}

impl Tier {
    pub fn name(self) -> &'static str {
        match self {
            Tier::Quick => "quick",
            Tier::Thorough => "thorough",
        }
    }
    /// choose by tier
    pub fn pick<T>(self, quick: T, thorough: T) -> T {
        match self {
            Tier::Quick => quick,
            Tier::Thorough => thorough,
        }
    }
}

#[derive(Clone, Debug)]
pub struct Cfg {
    pub seed: u64,
    pub tier: Tier,
    pub exe: PathBuf,
    pub workers: usize,
    /// process creation does not scale in this VM (measured: best throughput at 3-4 tracers)
    pub simos_workers: usize,
    pub verif: PathBuf,
    /// the repository under test
    pub repo: PathBuf,
    /// multiplies run counts (selftests use < 1)
    pub scale: f64,
    /// do not write evidence / replay files into /verif (used by self-tests)
    pub dry: bool,
}

impl Cfg {
    pub fn from_env() -> Self {
        let seed = std::env::var("VERIF_SEED")
            .ok()
            .and_then(|s| s.trim().parse().ok())
            .unwrap_or(1);
        let tier = match std::env::var("VERIF_TIER").as_deref() {
            Ok("thorough") => Tier::Thorough,
            _ => Tier::Quick,
        };
        let verif = std::env::var_os("VF_HOME")
            .map(PathBuf::from)
            .unwrap_or_else(|| PathBuf::from("/verif"));
        let exe = std::env::var_os("VF_JAQ")
            .map(PathBuf::from)
            .unwrap_or_else(|| verif.join("sim/target-jaq/debug/jaq"));
        let workers = std::env::var("VF_WORKERS")
            .ok()
            .and_then(|s| s.parse().ok())
            .unwrap_or_else(|| {
                std::thread::available_parallelism()
                    .map(|n| n.get())
                    .unwrap_or(4)
                    .min(16)
            });
        let scale = std::env::var("VF_SCALE")
            .ok()
            .and_then(|s| s.parse().ok())
            .unwrap_or(1.0);
        let simos_workers = std::env::var("VF_SIMOS_WORKERS")
            .ok()
            .and_then(|s| s.parse().ok())
            .unwrap_or(4usize)
            .min(workers.max(1));
        Cfg {
            seed,
            tier,
            exe,
            workers,
            simos_workers,
            verif,
            repo: std::env::var_os("VF_REPO").map(PathBuf::from).unwrap_or_else(|| PathBuf::from("/repo")),
            scale,
            dry: std::env::var_os("VF_DRY").is_some(),
        }
    }
    pub fn n(&self, quick: usize, thorough: usize) -> usize {
        ((self.tier.pick(quick, thorough) as f64) * self.scale).ceil().max(1.0) as usize
    }
}

/// Error of the harness itself (exit 2) — never reported as a violation.
#[derive(Debug)]
pub struct Harness(pub String);

impl<E: std::fmt::Display> From<E> for Harness {
    fn from(e: E) -> Self {
        Harness(e.to_string())
    }
}

#[derive(Clone, Debug, Serialize, Deserialize)]
pub struct Violation {
    pub property: String,
    /// stable class id of the violated invariant
    pub class: String,
    pub detail: String,
    /// what a known-finding entry is matched against
    #[serde(default)]
    pub fingerprint: BTreeMap<String, String>,
    /// the fully materialised case (no PRNG needed to re-run it)
    pub case: Value,
    pub seed: u64,
    pub run: u64,
    /// number of shrinking steps that succeeded before reporting
    #[serde(default)]
    pub minimised_steps: u32,
}

#[derive(Clone, Debug, Serialize, Deserialize)]
pub struct Finding {
    pub property: String,
    pub class: String,
    /// every key must equal the violation's fingerprint entry
    #[serde(rename = "match")]
    pub match_: BTreeMap<String, String>,
    /// "known" or "fixed"
    pub status: String,
    #[serde(default)]
    pub commit: Option<String>,
    /// for `fixed` entries: the literal record line "fixed: property=<id> <commit> <what failed>"
    #[serde(default)]
    pub line: Option<String>,
    pub what: String,
}

pub fn load_findings(cfg: &Cfg) -> Result<Vec<Finding>, Harness> {
    let p = cfg.verif.join("findings/known_findings.json");
    if !p.exists() {
        return Ok(Vec::new());
    }
    let s = std::fs::read_to_string(&p)?;
    Ok(serde_json::from_str(&s)?)
}

impl Finding {
    pub fn matches(&self, v: &Violation) -> bool {
        self.status == "known"
            && self.property == v.property
            && self.class == v.class
            && self
                .match_
                .iter()
                .all(|(k, want)| v.fingerprint.get(k) == Some(want))
    }
}

pub fn write_replay(cfg: &Cfg, v: &Violation) -> Result<PathBuf, Harness> {
    let dir = if cfg.dry {
        simos::tracer::scratch_base().join("replays")
    } else {
        cfg.verif.join("replays")
    };
    std::fs::create_dir_all(&dir)?;
    let p = dir.join(format!(
        "{}-{}-{}-{}.json",
        v.property, v.seed, v.run, v.class
    ));
    std::fs::write(&p, serde_json::to_string_pretty(v)?)?;
    Ok(p)
}

pub struct Evidence {
    pub property: &'static str,
    pub level: &'static str,
    pub coverage: Value,
    pub assumptions: Vec<String>,
}

static DIGESTS: std::sync::Mutex<Vec<(u64, u64)>> = std::sync::Mutex::new(Vec::new());

/// Remember the digest of run `run` (written out by `finish` when VF_DIGEST_OUT is set).
pub fn record_digest(run: u64, digest: u64) {
    DIGESTS.lock().unwrap().push((run, digest));
}

pub fn hash_str(s: &str) -> u64 {
    let mut f = simos::tracer::Fnv::new();
    f.write(s.as_bytes());
    f.finish()
}

/// Print the outcome lines, write evidence, return the process exit code.
pub fn finish(
    cfg: &Cfg,
    ev: Evidence,
    violations: Vec<Violation>,
    started: std::time::Instant,
) -> Result<i32, Harness> {
    if let Some(p) = std::env::var_os("VF_DIGEST_OUT") {
        let mut d = DIGESTS.lock().unwrap().clone();
        d.sort();
        let text: String = d.iter().map(|(r, h)| format!("{r} {h:016x}\n")).collect();
        std::fs::write(p, text)?;
    }
    let findings = load_findings(cfg)?;
    let mut code = 0;
    let mut known_printed = std::collections::BTreeSet::new();
    let mut n_viol = 0;
    let mut reported = std::collections::BTreeSet::new();
    for v in &violations {
        if let Some(f) = findings.iter().find(|f| f.matches(v)) {
            if known_printed.insert(f.what.clone()) {
                println!("KNOWN-FINDING: property={} {}", v.property, f.what);
            }
            continue;
        }
        n_viol += 1;
        // one replay file per (class, fingerprint) is enough; keep the first (smallest run index)
        let key = (v.class.clone(), v.fingerprint.clone());
        if !reported.insert(key) || reported.len() > 10 {
            continue;
        }
        let p = write_replay(cfg, v)?;
        println!(
            "VIOLATION property={} replay={} class={} detail={}",
            v.property,
            p.display(),
            v.class,
            v.detail.replace('\n', " | ")
        );
        code = 1;
    }
    let wall = started.elapsed().as_secs_f64();
    let mut coverage = ev.coverage;
    if let Some(o) = coverage.as_object_mut() {
        let evals = o.get("evaluations").and_then(|v| v.as_u64()).unwrap_or(0);
        o.insert(
            "runs_per_hour".into(),
            json!((evals as f64 / wall.max(1e-6) * 3600.0) as u64),
        );
        o.insert(
            "simulated_time".into(),
            json!("none: jaq has no timers, deadlines or sleeps; logical time = operation index"),
        );
        o.insert("workers".into(), json!(cfg.workers));
        o.insert("seeds".into(), json!(1));
        o.insert("seeds_per_hour".into(), json!((3600.0 / wall.max(1e-6)) as u64));
        o.insert(
            "known_findings_matched".into(),
            json!(known_printed.iter().collect::<Vec<_>>()),
        );
    }
    let doc = json!({
        "property_id": ev.property,
        "tier": cfg.tier.name(),
        "seed": cfg.seed,
        "level": ev.level,
        "coverage": coverage,
        "assumptions": ev.assumptions,
        "wall_s": wall,
        "violations": n_viol,
    });
    if !cfg.dry {
        let dir = cfg.verif.join("evidence");
        std::fs::create_dir_all(&dir)?;
        std::fs::write(
            dir.join(format!("{}.json", ev.property)),
            serde_json::to_string_pretty(&doc)?,
        )?;
    }
    println!(
        "{} tier={} seed={} evaluations={} violations={} wall={:.1}s",
        ev.property,
        cfg.tier.name(),
        cfg.seed,
        doc["coverage"]["evaluations"],
        n_viol,
        wall
    );
    Ok(code)
}

/// What one case of an in-process check reports back from its worker process.
#[derive(Clone, Debug, Default, Serialize, Deserialize)]
pub struct CaseOut {
    /// hash of everything observed in this case (determinism self-test)
    #[serde(default)]
    pub digest: u64,
    pub viol: Option<Violation>,
    pub tally: BTreeMap<String, u64>,
    /// keys for counting distinct non-trivial cases
    pub keys: Vec<String>,
    pub sample: Option<Value>,
}

/// Count occurrences of string tags.
#[derive(Default, Clone, Debug)]
pub struct Tally(pub BTreeMap<String, u64>);

impl Tally {
    pub fn add(&mut self, k: impl Into<String>) {
        *self.0.entry(k.into()).or_insert(0) += 1;
    }
    pub fn add_n(&mut self, k: impl Into<String>, n: u64) {
        *self.0.entry(k.into()).or_insert(0) += n;
    }
    pub fn merge(&mut self, o: &Tally) {
        for (k, v) in &o.0 {
            *self.0.entry(k.clone()).or_insert(0) += v;
        }
    }
    pub fn to_json(&self) -> Value {
        json!(self.0)
    }
    pub fn get(&self, k: &str) -> u64 {
        self.0.get(k).copied().unwrap_or(0)
    }
}

/// Watches worker threads of in-process checks: a case that does not come back within the
/// limit is reported as a violation (with its replay file) and ends the process. Wall-clock
/// time is consulted here only, and never decides a passing run.
pub struct HangWatch {
    slots: std::sync::Arc<std::sync::Mutex<Vec<Option<(std::time::Instant, u64, Value, String)>>>>,
    stop: std::sync::Arc<std::sync::atomic::AtomicBool>,
}

impl HangWatch {
    pub fn start(cfg: &Cfg, property: &'static str, class: &'static str, secs: u64) -> Self {
        let slots: std::sync::Arc<std::sync::Mutex<Vec<Option<(std::time::Instant, u64, Value, String)>>>> = std::sync::Arc::new(std::sync::Mutex::new(vec![None; cfg.workers.max(1) + 1]));
        let stop = std::sync::Arc::new(std::sync::atomic::AtomicBool::new(false));
        let (s2, st2, cfg2) = (slots.clone(), stop.clone(), cfg.clone());
        std::thread::spawn(move || loop {
            std::thread::sleep(std::time::Duration::from_millis(500));
            if st2.load(std::sync::atomic::Ordering::SeqCst) {
                return;
            }
            let hung = s2
                .lock()
                .unwrap()
                .iter()
                .flatten()
                .find(|(t, ..)| t.elapsed().as_secs() >= secs)
                .cloned();
            if let Some((_, run, case, detail)) = hung {
                let v = Violation {
                    property: property.into(),
                    class: class.into(),
                    detail: detail.clone(),
                    fingerprint: BTreeMap::new(),
                    case,
                    seed: cfg2.seed,
                    run,
                    minimised_steps: 0,
                };
                match write_replay(&cfg2, &v) {
                    Ok(p) => println!(
                        "VIOLATION property={} replay={} class={} detail={}",
                        property,
                        p.display(),
                        class,
                        detail
                    ),
                    Err(e) => eprintln!("HARNESS-ERROR: {}", e.0),
                }
                std::process::exit(1);
            }
        });
        HangWatch { slots, stop }
    }
    pub fn enter(&self, worker: usize, run: u64, case: impl FnOnce() -> Value, detail: &str) {
        let mut s = self.slots.lock().unwrap();
        if worker < s.len() {
            s[worker] = Some((std::time::Instant::now(), run, case(), detail.to_string()));
        }
    }
    pub fn leave(&self, worker: usize) {
        let mut s = self.slots.lock().unwrap();
        if worker < s.len() {
            s[worker] = None;
        }
    }
    pub fn stop(&self) {
        self.stop.store(true, std::sync::atomic::Ordering::SeqCst);
    }
}
