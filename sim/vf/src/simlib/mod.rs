//! `simlib` — in-process seams for the library crates (DESIGN.md §2.2):
//! a data kind whose global data carries an effect log, probe natives, a logging input stream,
//! and fault-injecting readers/writers.
pub mod io;

use jaq_all::jaq_core::box_iter::box_once;
use jaq_all::jaq_core::data::HasLut;
use jaq_all::jaq_core::native::{run, v, Filter, Fun};
use jaq_all::jaq_core::{DataT, Error, Exn, Lut, RunPtr};
use jaq_all::jaq_std::input::{self, HasInputs, Inputs};
use jaq_all::json::Val;
use serde::{Deserialize, Serialize};
use std::cell::{Cell, RefCell};

/// An effect that the simulation can observe.
#[derive(Clone, Debug, PartialEq, Eq, PartialOrd, Ord, Hash, Serialize, Deserialize)]
pub enum Ev {
    /// `probe($i)` was evaluated
    P(String),
    /// the j-th value (0-based) of the input stream was requested
    In(usize),
    /// a point that must never be reached was reached
    Bomb,
    /// the fuel budget of the run was used up (an eagerly evaluated endless generator)
    Fuel,
}

#[derive(Default)]
pub struct Log {
    pub events: RefCell<Vec<Ev>>,
    pub fuel: Cell<u64>,
}

impl Log {
    pub fn new(fuel: u64) -> Self {
        Log { events: RefCell::new(Vec::new()), fuel: Cell::new(fuel) }
    }
    pub fn push(&self, e: Ev) -> bool {
        let f = self.fuel.get();
        if f == 0 {
            let mut ev = self.events.borrow_mut();
            if ev.last() != Some(&Ev::Fuel) {
                ev.push(Ev::Fuel);
            }
            return false;
        }
        self.fuel.set(f - 1);
        self.events.borrow_mut().push(e);
        true
    }
    pub fn len(&self) -> usize {
        self.events.borrow().len()
    }
    pub fn snapshot(&self) -> Vec<Ev> {
        self.events.borrow().clone()
    }
}

pub struct SimKind;

impl DataT for SimKind {
    type V<'a> = Val;
    type Data<'a> = &'a SimData<'a>;
}

pub struct SimData<'a> {
    pub lut: &'a Lut<SimKind>,
    pub inputs: Inputs<'a, Val>,
    pub log: &'a Log,
}

impl<'a> HasLut<'a, SimKind> for &'a SimData<'a> {
    fn lut(&self) -> &'a Lut<SimKind> {
        self.lut
    }
}

impl<'a> HasInputs<'a, Val> for &'a SimData<'a> {
    fn inputs(&self) -> Inputs<'a, Val> {
        self.inputs
    }
}

fn probe_fun() -> Fun<SimKind> {
    use jaq_all::jaq_core::Native;
    let n = Native::<SimKind>::new(|mut cv| {
        let i = cv.0.pop_var();
        let log = cv.0.data().log;
        if log.push(Ev::P(i.to_string())) {
            box_once(Ok(cv.1))
        } else {
            box_once(Err(Exn::from(Error::str("out of fuel"))))
        }
    })
    // in path mode the probe passes the value *and its path* through
    .with_paths(|mut cv| {
        let i = cv.0.pop_var();
        let log = cv.0.data().log;
        if log.push(Ev::P(i.to_string())) {
            box_once(Ok(cv.1))
        } else {
            box_once(Err(Exn::from(Error::str("out of fuel"))))
        }
    });
    ("probe", v(1), n)
}

fn bomb_fun() -> Fun<SimKind> {
    use jaq_all::jaq_core::Native;
    let n = Native::<SimKind>::new(|cv| {
        cv.0.data().log.push(Ev::Bomb);
        box_once(Err(Exn::from(Error::str("bomb"))))
    })
    .with_paths(|cv| {
        cv.0.data().log.push(Ev::Bomb);
        box_once(Err(Exn::from(Error::str("bomb"))))
    });
    ("bomb", v(0), n)
}

/// All natives of the tree for `SimKind`, plus the probes.
pub fn funs() -> impl Iterator<Item = Fun<SimKind>> {
    let core = jaq_all::jaq_core::funs::<SimKind>();
    let std = jaq_all::jaq_std::funs::<SimKind>();
    let json = jaq_all::json::funs::<SimKind>();
    let input = input::funs::<SimKind>().into_vec().into_iter().map(run::<SimKind>);
    core.chain(std).chain(json).chain(input).chain([probe_fun(), bomb_fun()])
}

pub type SimFilter = jaq_all::jaq_core::Filter<SimKind>;

/// Compile `code` (with `prelude` definitions in jq syntax put in front) for `SimKind`.
pub fn compile(code: &str) -> Result<SimFilter, String> {
    jaq_all::compile_with(code, jaq_all::defs(), funs(), &[]).map_err(|e| {
        e.iter()
            .map(|fr| jaq_all::load::FileReportsDisp::new(fr).to_string())
            .collect::<Vec<_>>()
            .join("\n")
    })
}

/// How the simulated input stream ends.
#[derive(Clone, Copy, Debug, PartialEq, Eq, Serialize, Deserialize)]
pub enum InputEnd {
    /// end of stream
    End,
    /// the next pull fails (parse error / the value never arrives)
    Fail,
    /// endless: value j is the integer j
    Endless,
}

/// The value-level input stream: logs `In(j)` for every value requested.
pub struct SimInputs<'a> {
    pub values: Vec<Val>,
    pub end: InputEnd,
    pub next: usize,
    pub log: &'a Log,
    failed: bool,
}

impl<'a> SimInputs<'a> {
    pub fn new(values: Vec<Val>, end: InputEnd, log: &'a Log) -> Self {
        SimInputs { values, end, next: 0, log, failed: false }
    }
}

impl Iterator for SimInputs<'_> {
    type Item = Result<Val, String>;
    fn next(&mut self) -> Option<Self::Item> {
        if self.failed {
            return None;
        }
        let j = self.next;
        if j < self.values.len() {
            self.next += 1;
            if !self.log.push(Ev::In(j)) {
                self.failed = true;
                return Some(Err("out of fuel".into()));
            }
            return Some(Ok(self.values[j].clone()));
        }
        match self.end {
            InputEnd::End => None,
            InputEnd::Fail => {
                self.failed = true;
                self.log.push(Ev::In(j));
                Some(Err("input failed".into()))
            }
            InputEnd::Endless => {
                self.next += 1;
                if !self.log.push(Ev::In(j)) {
                    self.failed = true;
                    return Some(Err("out of fuel".into()));
                }
                Some(Ok(Val::from(j as isize)))
            }
        }
    }
}
