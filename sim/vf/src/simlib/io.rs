//! Fault-injecting byte streams: the "network and disk" of a library that reads and writes
//! through `Read`/`BufRead`/`Write` arguments.
use serde::{Deserialize, Serialize};
use std::io::{self, BufRead, Read, Write};

/// One scheduled step of a reader.
#[derive(Clone, Copy, Debug, PartialEq, Eq, Serialize, Deserialize)]
pub enum RStep {
    /// deliver at most n bytes
    Chunk(u32),
    /// `ErrorKind::Interrupted` (no bytes consumed)
    Interrupted,
    /// `ErrorKind::WouldBlock`-free hard error
    Fail,
}

#[derive(Clone, Debug, Default, Serialize, Deserialize)]
pub struct ReadPlan {
    /// applied to successive fills; when used up, `rest` applies
    pub steps: Vec<RStep>,
    /// chunk size once `steps` are used up (0 = unlimited)
    pub rest: u32,
    /// the stream ends with a hard error instead of EOF
    pub fail_at_end: bool,
}

/// A `Read + BufRead` over a byte vector obeying a plan; counts calls.
pub struct SimReader {
    data: Vec<u8>,
    pos: usize,
    plan: ReadPlan,
    step: usize,
    /// bytes made visible by the last `fill_buf`
    window: usize,
    pub calls: u64,
    pub after_end_calls: u64,
    ended: bool,
}

impl SimReader {
    pub fn new(data: Vec<u8>, plan: ReadPlan) -> Self {
        SimReader { data, pos: 0, plan, step: 0, window: 0, calls: 0, after_end_calls: 0, ended: false }
    }
    fn next_step(&mut self) -> RStep {
        let s = self.plan.steps.get(self.step).copied();
        self.step += 1;
        s.unwrap_or(RStep::Chunk(self.plan.rest))
    }
    fn available(&mut self) -> io::Result<usize> {
        self.calls += 1;
        if self.ended {
            self.after_end_calls += 1;
        }
        let left = self.data.len() - self.pos;
        if left == 0 {
            self.ended = true;
            if self.plan.fail_at_end {
                return Err(io::Error::new(io::ErrorKind::Other, "simulated read failure"));
            }
            return Ok(0);
        }
        match self.next_step() {
            RStep::Chunk(0) => Ok(left),
            RStep::Chunk(n) => Ok(left.min(n as usize)),
            RStep::Interrupted => Err(io::Error::new(io::ErrorKind::Interrupted, "simulated EINTR")),
            RStep::Fail => {
                self.ended = true;
                self.pos = self.data.len();
                Err(io::Error::new(io::ErrorKind::Other, "simulated read failure"))
            }
        }
    }
}

impl Read for SimReader {
    fn read(&mut self, buf: &mut [u8]) -> io::Result<usize> {
        if buf.is_empty() {
            return Ok(0);
        }
        let n = self.available()?.min(buf.len());
        buf[..n].copy_from_slice(&self.data[self.pos..self.pos + n]);
        self.pos += n;
        self.window = 0;
        Ok(n)
    }
}

impl BufRead for SimReader {
    fn fill_buf(&mut self) -> io::Result<&[u8]> {
        if self.window == 0 {
            self.window = self.available()?;
        }
        Ok(&self.data[self.pos..self.pos + self.window])
    }
    fn consume(&mut self, amt: usize) {
        let amt = amt.min(self.window);
        self.pos += amt;
        self.window -= amt;
    }
}

#[derive(Clone, Copy, Debug, PartialEq, Eq, Serialize, Deserialize)]
pub enum WStep {
    /// accept at most n bytes (0 = all)
    Accept(u32),
    Interrupted,
    /// hard error: nothing of this call is accepted
    Fail,
}

#[derive(Clone, Debug, Default, Serialize, Deserialize)]
pub struct WritePlan {
    pub steps: Vec<WStep>,
    /// once `steps` are used up: accept at most this many per call (0 = all)
    pub rest: u32,
    /// every flush after this many flushes fails (None = never)
    pub flush_fail_after: Option<u32>,
    /// after a `Fail`, every later call fails as well
    pub sticky_fail: bool,
}

/// A `Write` that records exactly the bytes it accepted.
pub struct SimWriter {
    pub accepted: Vec<u8>,
    plan: WritePlan,
    step: usize,
    pub flushes: u32,
    pub failed: bool,
    /// length of `accepted` at each flush
    pub flush_marks: Vec<usize>,
}

impl SimWriter {
    pub fn new(plan: WritePlan) -> Self {
        SimWriter { accepted: Vec::new(), plan, step: 0, flushes: 0, failed: false, flush_marks: Vec::new() }
    }
}

impl Write for SimWriter {
    fn write(&mut self, buf: &[u8]) -> io::Result<usize> {
        if buf.is_empty() {
            return Ok(0);
        }
        if self.failed && self.plan.sticky_fail {
            return Err(io::Error::new(io::ErrorKind::Other, "simulated write failure"));
        }
        let s = self.plan.steps.get(self.step).copied().unwrap_or(WStep::Accept(self.plan.rest));
        self.step += 1;
        match s {
            WStep::Accept(0) => {
                self.accepted.extend_from_slice(buf);
                Ok(buf.len())
            }
            WStep::Accept(n) => {
                let n = (n as usize).min(buf.len());
                self.accepted.extend_from_slice(&buf[..n]);
                Ok(n)
            }
            WStep::Interrupted => Err(io::Error::new(io::ErrorKind::Interrupted, "simulated EINTR")),
            WStep::Fail => {
                self.failed = true;
                Err(io::Error::new(io::ErrorKind::Other, "simulated write failure"))
            }
        }
    }
    fn flush(&mut self) -> io::Result<()> {
        self.flushes += 1;
        self.flush_marks.push(self.accepted.len());
        if self.plan.flush_fail_after.is_some_and(|n| self.flushes > n) {
            self.failed = true;
            return Err(io::Error::new(io::ErrorKind::Other, "simulated flush failure"));
        }
        Ok(())
    }
}
