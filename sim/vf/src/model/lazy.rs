//! The effect-trace reference model of C03 (DESIGN.md Appendix B): a small lazy definitional
//! evaluator for a language of stream terms with observable effects. `eval` builds a stream
//! of steps without performing any effect; effects happen when the stream is pulled, in the
//! left-to-right order of the manual's definitions.
use crate::simlib::{Ev, InputEnd};
use serde::{Deserialize, Serialize};
use std::cell::{Cell, RefCell};
use std::rc::Rc;

#[derive(Clone, Debug, PartialEq, Serialize, Deserialize)]
pub enum V {
    Null,
    False,
    True,
    Int(i64),
    Str(String),
    Arr(Vec<V>),
    /// a value together with the path at which it sits (path mode, inside `path(..)`)
    At(Box<V>, Vec<i64>),
    /// an object, kept as its compact JSON text (only ever compared and printed)
    Raw(String),
}

impl V {
    /// the value without its path
    pub fn plain(&self) -> &V {
        match self {
            V::At(v, _) => v.plain(),
            v => v,
        }
    }
    pub fn truthy(&self) -> bool {
        !matches!(self.plain(), V::Null | V::False)
    }
    fn rank(&self) -> u8 {
        match self {
            V::Null => 0,
            V::False => 1,
            V::True => 2,
            V::Int(_) => 3,
            V::Str(_) => 4,
            V::Arr(_) => 5,
            V::At(v, _) => v.rank(),
            V::Raw(_) => 6,
        }
    }
    pub fn cmp(&self, o: &V) -> std::cmp::Ordering {
        match (self.plain(), o.plain()) {
            (V::Int(a), V::Int(b)) => a.cmp(b),
            (V::Str(a), V::Str(b)) => a.cmp(b),
            (V::Arr(a), V::Arr(b)) => {
                for (x, y) in a.iter().zip(b) {
                    let c = x.cmp(y);
                    if c != std::cmp::Ordering::Equal {
                        return c;
                    }
                }
                a.len().cmp(&b.len())
            }
            (a, b) => a.rank().cmp(&b.rank()),
        }
    }
    /// compact JSON, as jaq prints it
    pub fn json(&self) -> String {
        match self {
            V::Null => "null".into(),
            V::False => "false".into(),
            V::True => "true".into(),
            V::Int(i) => i.to_string(),
            V::Str(s) => format!("{s:?}"),
            V::Arr(a) => format!("[{}]", a.iter().map(|v| v.json()).collect::<Vec<_>>().join(",")),
            V::At(v, _) => v.json(),
            V::Raw(s) => s.clone(),
        }
    }
    /// what `tostring` / string interpolation makes of the value
    pub fn tostring(&self) -> String {
        match self.plain() {
            V::Str(s) => s.clone(),
            v => v.json(),
        }
    }
    fn add(&self, o: &V) -> Result<V, V> {
        match (self.plain(), o.plain()) {
            (V::Int(a), V::Int(b)) => Ok(V::Int(a.wrapping_add(*b))),
            (V::Null, x) | (x, V::Null) => Ok(x.clone()),
            (V::Arr(a), V::Arr(b)) => Ok(V::Arr(a.iter().chain(b).cloned().collect())),
            (V::Str(a), V::Str(b)) => Ok(V::Str(format!("{a}{b}"))),
            _ => Err(V::Str("cannot add".into())),
        }
    }
}

/// Effect-free conditions on `.`.
#[derive(Clone, Debug, Serialize, Deserialize)]
pub enum C {
    True,
    False,
    Eq(i64),
    Lt(i64),
    Ge(i64),
}

impl C {
    pub fn text(&self) -> String {
        match self {
            C::True => "true".into(),
            C::False => "false".into(),
            C::Eq(n) => format!("(. == {n})"),
            C::Lt(n) => format!("(. < {n})"),
            C::Ge(n) => format!("(. >= {n})"),
        }
    }
    fn test(&self, v: &V) -> bool {
        use std::cmp::Ordering::*;
        match self {
            C::True => true,
            C::False => false,
            C::Eq(n) => v.cmp(&V::Int(*n)) == Equal,
            C::Lt(n) => v.cmp(&V::Int(*n)) == Less,
            C::Ge(n) => v.cmp(&V::Int(*n)) != Less,
        }
    }
}

#[derive(Clone, Debug, Serialize, Deserialize)]
pub enum T {
    /// `mk(i)`: effect P(i), output i
    Mk(i64),
    Lit(V),
    Dot,
    /// `probe(.)`: effect P(.), output `.`
    PDot,
    /// `. + 1`
    Inc,
    Empty,
    /// effect Bomb, then an error
    Bomb,
    /// `error("e")`: no effect
    Err,
    /// `halt`: ends the whole run; not catchable
    Halt,
    Input,
    Inputs,
    Var(String),
    Comma(Box<T>, Box<T>),
    Pipe(Box<T>, Box<T>),
    As(Box<T>, String, Box<T>),
    If(C, Box<T>, Box<T>),
    Alt(Box<T>, Box<T>),
    Try(Box<T>, Box<T>),
    TryQ(Box<T>),
    Label(String, Box<T>),
    Break(String),
    First(Box<T>),
    Limit(i64, Box<T>),
    Skip(i64, Box<T>),
    Nth(i64, Box<T>),
    IsEmpty(Box<T>),
    Any(Box<T>, C),
    All(Box<T>, C),
    /// `foreach SRC as $x (init; UPDATE; EXTRACT)`; update may have any number of outputs
    Foreach(Box<T>, String, i64, Box<T>, Option<Box<T>>),
    Reduce(Box<T>, String, i64, Box<T>),
    Arr(Box<T>),
    /// `def r: E, r; r`
    Rec(Box<T>),
    Repeat(Box<T>),
    Recurse(Box<T>),
    While(C, Box<T>),
    Until(C, Box<T>),
    Range(i64, i64, i64),
    /// `$x + .` (used in fold updates)
    AddVar(String),
    /// `[10,20,30,40,50,60] | .[a:(Z)]`: an effectful, multi-valued upper bound of a slice
    SliceTo(i64, Box<T>),
    /// `[10,20,30,40,50,60] | .[(Z)]`: an effectful, multi-valued index
    IndexAt(Box<T>),
    /// `[[10,20,30],[40,50]] | path(E)`: E is run in path mode
    PathOf(Box<T>),
    /// `.[i]` (used inside `path(..)`)
    Idx(i64),
    /// `.[]` (used inside `path(..)`)
    Iter,
    /// `probe(i)`: effect P(i), passes its input (and, in path mode, its path) through
    Pass(i64),
    /// `.[(Z)]` inside `path(..)`: an effectful, multi-valued index in path mode
    IdxZ(Box<T>),
    /// `"x\(E)y"`: string interpolation of a stream
    Interp(Box<T>),
    /// `{a: (E)}`: object construction over a stream of values
    ObjVal(Box<T>),
    /// `((E) + n)`
    AddR(Box<T>, i64),
    /// `(n + (E))`
    AddL(i64, Box<T>),
    /// `((E) == n)`
    EqLit(Box<T>, i64),
    /// `limit((Z); F)`: a multi-valued, effectful count
    LimitZ(Box<T>, Box<T>),
    /// `range((Z); n)`: a multi-valued, effectful lower bound
    RangeZ(Box<T>, i64),
    /// `last(F)`: needs the whole stream, in order
    Last(Box<T>),
}

pub const ARR: [i64; 6] = [10, 20, 30, 40, 50, 60];

pub const PRELUDE: &str = "def mk($i): probe($i) | $i;\n";

impl T {
    pub fn text(&self) -> String {
        let b = |t: &T| t.text();
        match self {
            T::Mk(i) => format!("mk({i})"),
            T::Lit(v) => v.json(),
            T::Dot => ".".into(),
            T::PDot => "probe(.)".into(),
            T::Inc => "(. + 1)".into(),
            T::Empty => "empty".into(),
            T::Bomb => "bomb".into(),
            T::Err => "error(\"e\")".into(),
            T::Halt => "halt".into(),
            T::Input => "input".into(),
            T::Inputs => "inputs".into(),
            T::Var(x) => format!("${x}"),
            T::Comma(a, c) => format!("({}, {})", b(a), b(c)),
            T::Pipe(a, c) => format!("({} | {})", b(a), b(c)),
            T::As(a, x, c) => format!("({} as ${x} | {})", b(a), b(c)),
            T::If(c, a, e) => format!("(if {} then {} else {} end)", c.text(), b(a), b(e)),
            T::Alt(a, c) => format!("({} // {})", b(a), b(c)),
            T::Try(a, c) => format!("(try {} catch {})", b(a), b(c)),
            T::TryQ(a) => format!("({})?", b(a)),
            T::Label(l, a) => format!("(label ${l} | {})", b(a)),
            T::Break(l) => format!("break ${l}"),
            T::First(a) => format!("first({})", b(a)),
            T::Limit(n, a) => format!("limit({n}; {})", b(a)),
            T::Skip(n, a) => format!("skip({n}; {})", b(a)),
            T::Nth(n, a) => format!("nth({n}; {})", b(a)),
            T::IsEmpty(a) => format!("isempty({})", b(a)),
            T::Any(a, c) => format!("any({}; {})", b(a), c.text()),
            T::All(a, c) => format!("all({}; {})", b(a), c.text()),
            T::Foreach(s, x, i, u, None) => format!("(foreach {} as ${x} ({i}; {}))", b(s), b(u)),
            T::Foreach(s, x, i, u, Some(e)) => {
                format!("(foreach {} as ${x} ({i}; {}; {}))", b(s), b(u), b(e))
            }
            T::Reduce(s, x, i, u) => format!("(reduce {} as ${x} ({i}; {}))", b(s), b(u)),
            T::Arr(a) => format!("[{}]", b(a)),
            T::Rec(a) => format!("(def r: {}, r; r)", b(a)),
            T::Repeat(a) => format!("repeat({})", b(a)),
            T::Recurse(a) => format!("recurse({})", b(a)),
            T::While(c, a) => format!("while({}; {})", c.text(), b(a)),
            T::Until(c, a) => format!("until({}; {})", c.text(), b(a)),
            T::Range(a, c, s) => format!("range({a}; {c}; {s})"),
            T::AddVar(x) => format!("(. + ${x})"),
            T::SliceTo(a, z) => format!("([10,20,30,40,50,60] | .[{a}:({})])", b(z)),
            T::IndexAt(z) => format!("([10,20,30,40,50,60] | .[({})])", b(z)),
            T::PathOf(e) => format!("([[10,20,30],[40,50]] | path({}))", b(e)),
            T::Idx(i) => format!(".[{i}]"),
            T::Iter => ".[]".into(),
            T::Pass(i) => format!("probe({i})"),
            T::IdxZ(z) => format!(".[({})]", b(z)),
            T::Interp(e) => format!("\"x\\({})y\"", b(e)),
            T::ObjVal(e) => format!("{{a: ({})}}", b(e)),
            T::AddR(e, n) => format!("(({}) + {n})", b(e)),
            T::AddL(n, e) => format!("({n} + ({}))", b(e)),
            T::EqLit(e, n) => format!("(({}) == {n})", b(e)),
            T::LimitZ(z, f) => format!("limit(({}); {})", b(z), b(f)),
            T::RangeZ(z, n) => format!("range(({}); {n})", b(z)),
            T::Last(f) => format!("last({})", b(f)),
        }
    }
    /// effects sit in index / bound positions of a path (compared as sets, see c03.rs)
    pub fn has_path_effects(&self) -> bool {
        if matches!(self, T::SliceTo(..) | T::IndexAt(_) | T::IdxZ(_)) {
            return true;
        }
        let mut r = false;
        self.children(&mut |c| r |= c.has_path_effects());
        r
    }
    pub fn size(&self) -> usize {
        let mut n = 1;
        self.children(&mut |c| n += c.size());
        n
    }
    fn children(&self, f: &mut dyn FnMut(&T)) {
        match self {
            T::Comma(a, b) | T::Pipe(a, b) | T::Alt(a, b) | T::Try(a, b) | T::As(a, _, b) | T::If(_, a, b) => {
                f(a);
                f(b)
            }
            T::TryQ(a) | T::Label(_, a) | T::First(a) | T::Limit(_, a) | T::Skip(_, a) | T::Nth(_, a)
            | T::IsEmpty(a) | T::Any(a, _) | T::All(a, _) | T::Arr(a) | T::Rec(a) | T::Repeat(a)
            | T::Recurse(a) | T::While(_, a) | T::Until(_, a) | T::SliceTo(_, a) | T::IndexAt(a) | T::PathOf(a) | T::IdxZ(a) | T::Interp(a) | T::ObjVal(a)
            | T::AddR(a, _) | T::AddL(_, a) | T::EqLit(a, _) | T::RangeZ(a, _) | T::Last(a) => f(a),
            T::LimitZ(z, a) => {
                f(z);
                f(a)
            }
            T::Foreach(s, _, _, u, e) => {
                f(s);
                f(u);
                if let Some(e) = e {
                    f(e)
                }
            }
            T::Reduce(s, _, _, u) => {
                f(s);
                f(u)
            }
            _ => {}
        }
    }
    /// the shape of the term without its constants (for counting distinct programs)
    pub fn shape(&self) -> String {
        let mut s = format!("{self:?}");
        s.retain(|c| !c.is_ascii_digit() && c != '-');
        s
    }
}

thread_local! {
    /// set when an evaluation met a construct whose meaning the model does not describe; its trace
    /// then decides nothing
    pub static UNMODELLED: std::cell::Cell<bool> = const { std::cell::Cell::new(false) };
}

#[derive(Clone, Debug, PartialEq)]
pub enum X {
    Error(V),
    Break(u64),
    Halt,
    /// the model ran out of fuel (an endless computation without output)
    Fuel,
}

#[derive(Clone, Debug, PartialEq)]
pub enum Step {
    E(Ev),
    Out(V),
    Err(X),
}

pub type Stream = Box<dyn Iterator<Item = Step>>;

pub struct Shared {
    pub inputs: RefCell<(Vec<V>, usize)>,
    pub end: InputEnd,
    pub input_failed: Cell<bool>,
    pub next_label: Cell<u64>,
    pub fuel: Cell<u64>,
}

#[derive(Clone)]
pub struct Env {
    pub dot: V,
    vars: Rc<Vec<(String, V)>>,
    labels: Rc<Vec<(String, u64)>>,
    pub sh: Rc<Shared>,
}

impl Env {
    pub fn new(dot: V, inputs: Vec<V>, end: InputEnd, fuel: u64) -> Self {
        Env {
            dot,
            vars: Rc::new(Vec::new()),
            labels: Rc::new(Vec::new()),
            sh: Rc::new(Shared {
                inputs: RefCell::new((inputs, 0)),
                end,
                input_failed: Cell::new(false),
                next_label: Cell::new(1),
                fuel: Cell::new(fuel),
            }),
        }
    }
    fn with_dot(&self, v: V) -> Env {
        Env { dot: v, ..self.clone() }
    }
    fn bind(&self, x: &str, v: V) -> Env {
        let mut vars = (*self.vars).clone();
        vars.push((x.to_string(), v));
        Env { vars: Rc::new(vars), ..self.clone() }
    }
    fn var(&self, x: &str) -> V {
        self.vars.iter().rev().find(|(n, _)| n == x).map(|(_, v)| v.clone()).unwrap_or(V::Null)
    }
    fn bind_label(&self, l: &str, id: u64) -> Env {
        let mut ls = (*self.labels).clone();
        ls.push((l.to_string(), id));
        Env { labels: Rc::new(ls), ..self.clone() }
    }
    fn label(&self, l: &str) -> u64 {
        self.labels.iter().rev().find(|(n, _)| n == l).map(|(_, v)| *v).unwrap_or(0)
    }
}

fn once(s: Step) -> Stream {
    Box::new(std::iter::once(s))
}
fn steps(v: Vec<Step>) -> Stream {
    Box::new(v.into_iter())
}
fn empty() -> Stream {
    Box::new(std::iter::empty())
}

/// A stream built on first pull (keeps `eval` itself effect-free and cheap, and lets recursive
/// definitions unfold lazily).
fn lazy(f: impl FnOnce() -> Stream + 'static) -> Stream {
    let mut f = Some(f);
    let mut s: Option<Stream> = None;
    Box::new(std::iter::from_fn(move || {
        if s.is_none() {
            s = Some((f.take().unwrap())());
        }
        s.as_mut().unwrap().next()
    }))
}

/// Ends the stream after the first `Err` and charges fuel per step.
fn guard(sh: Rc<Shared>, mut s: Stream) -> Stream {
    let mut done = false;
    Box::new(std::iter::from_fn(move || {
        if done {
            return None;
        }
        let f = sh.fuel.get();
        if f == 0 {
            done = true;
            return Some(Step::Err(X::Fuel));
        }
        sh.fuel.set(f - 1);
        let n = s.next();
        if matches!(n, Some(Step::Err(_))) {
            done = true;
        }
        n
    }))
}

/// For every output of `s`, splice in `f(output)`; effects pass; an error ends everything.
fn flat(mut s: Stream, f: impl Fn(V) -> Stream + 'static) -> Stream {
    let mut inner: Option<Stream> = None;
    let mut done = false;
    Box::new(std::iter::from_fn(move || loop {
        if done {
            return None;
        }
        if let Some(i) = inner.as_mut() {
            match i.next() {
                Some(Step::Err(x)) => {
                    done = true;
                    return Some(Step::Err(x));
                }
                Some(st) => return Some(st),
                None => inner = None,
            }
        }
        match s.next() {
            None => {
                done = true;
                return None;
            }
            Some(Step::Out(v)) => inner = Some(f(v)),
            Some(Step::Err(x)) => {
                done = true;
                return Some(Step::Err(x));
            }
            Some(e) => return Some(e),
        }
    }))
}

fn chain(a: Stream, b: impl FnOnce() -> Stream + 'static) -> Stream {
    let mut a = Some(a);
    let mut b = Some(b);
    let mut cur: Option<Stream> = None;
    let mut done = false;
    Box::new(std::iter::from_fn(move || loop {
        if done {
            return None;
        }
        if let Some(s) = a.as_mut() {
            match s.next() {
                Some(Step::Err(x)) => {
                    done = true;
                    return Some(Step::Err(x));
                }
                Some(st) => return Some(st),
                None => {
                    a = None;
                    cur = Some((b.take().unwrap())());
                }
            }
        } else if let Some(s) = cur.as_mut() {
            match s.next() {
                Some(Step::Err(x)) => {
                    done = true;
                    return Some(Step::Err(x));
                }
                r => {
                    if r.is_none() {
                        done = true;
                    }
                    return r;
                }
            }
        } else {
            return None;
        }
    }))
}

/// Take outputs while `keep` says so: `keep(n_outputs_so_far_including_this, &v)` returns
/// (emit this one?, stop after it?).
fn control(mut s: Stream, mut keep: impl FnMut(usize, &V) -> (Option<V>, bool) + 'static) -> Stream {
    let mut n = 0;
    let mut done = false;
    Box::new(std::iter::from_fn(move || loop {
        if done {
            return None;
        }
        match s.next() {
            None => {
                done = true;
                return None;
            }
            Some(Step::Out(v)) => {
                n += 1;
                let (emit, stop) = keep(n, &v);
                if stop {
                    done = true;
                }
                if let Some(v) = emit {
                    return Some(Step::Out(v));
                }
            }
            Some(Step::Err(x)) => {
                done = true;
                return Some(Step::Err(x));
            }
            Some(e) => return Some(e),
        }
    }))
}

/// Like `control`, but yields `at_end` when the stream ends without having been stopped.
fn control_end(s: Stream, keep: impl FnMut(usize, &V) -> (Option<V>, bool) + 'static, at_end: V) -> Stream {
    let stopped = Rc::new(Cell::new(false));
    let st2 = stopped.clone();
    let mut keep = keep;
    let inner = control(s, move |n, v| {
        let (e, stop) = keep(n, v);
        if stop {
            st2.set(true);
        }
        (e, stop)
    });
    // an error also counts as "stopped": nothing is appended after it
    let errored = Rc::new(Cell::new(false));
    let er2 = errored.clone();
    let inner: Stream = Box::new(inner.inspect(move |s| {
        if matches!(s, Step::Err(_)) {
            er2.set(true)
        }
    }));
    chain(inner, move || {
        if stopped.get() || errored.get() {
            empty()
        } else {
            once(Step::Out(at_end))
        }
    })
}

fn pull_input(sh: &Rc<Shared>) -> Vec<Step> {
    if sh.input_failed.get() {
        return vec![];
    }
    let mut inp = sh.inputs.borrow_mut();
    let j = inp.1;
    if j < inp.0.len() {
        inp.1 += 1;
        return vec![Step::E(Ev::In(j)), Step::Out(inp.0[j].clone())];
    }
    match sh.end {
        InputEnd::End => vec![],
        InputEnd::Fail => {
            sh.input_failed.set(true);
            vec![Step::E(Ev::In(j)), Step::Err(X::Error(V::Str("input failed".into())))]
        }
        InputEnd::Endless => {
            inp.1 += 1;
            vec![Step::E(Ev::In(j)), Step::Out(V::Int(j as i64))]
        }
    }
}

pub fn eval(t: &T, env: &Env) -> Stream {
    let sh = env.sh.clone();
    guard(sh, eval_(t, env))
}

fn eval_(t: &T, env: &Env) -> Stream {
    match t {
        T::Mk(i) => steps(vec![Step::E(Ev::P(i.to_string())), Step::Out(V::Int(*i))]),
        T::Lit(v) => once(Step::Out(v.clone())),
        T::Dot => once(Step::Out(env.dot.clone())),
        T::PDot => steps(vec![Step::E(Ev::P(env.dot.json())), Step::Out(env.dot.clone())]),
        T::Inc => match env.dot.add(&V::Int(1)) {
            Ok(v) => once(Step::Out(v)),
            Err(e) => once(Step::Err(X::Error(e))),
        },
        T::AddVar(x) => match env.dot.add(&env.var(x)) {
            Ok(v) => once(Step::Out(v)),
            Err(e) => once(Step::Err(X::Error(e))),
        },
        T::Empty => empty(),
        T::Bomb => steps(vec![Step::E(Ev::Bomb), Step::Err(X::Error(V::Str("bomb".into())))]),
        T::Err => once(Step::Err(X::Error(V::Str("e".into())))),
        T::Halt => once(Step::Err(X::Halt)),
        T::Input => {
            let sh = env.sh.clone();
            lazy(move || steps(pull_input(&sh)))
        }
        T::Inputs => {
            let sh = env.sh.clone();
            let mut cur: std::vec::IntoIter<Step> = Vec::new().into_iter();
            let mut ended = false;
            Box::new(std::iter::from_fn(move || loop {
                if let Some(s) = cur.next() {
                    return Some(s);
                }
                if ended {
                    return None;
                }
                let p = pull_input(&sh);
                if p.is_empty() {
                    ended = true;
                    return None;
                }
                cur = p.into_iter();
            }))
        }
        T::Var(x) => once(Step::Out(env.var(x))),
        T::Comma(a, b) => {
            let (b, env2) = ((**b).clone(), env.clone());
            chain(eval(a, env), move || eval(&b, &env2))
        }
        T::Pipe(a, b) => {
            let (b, env2) = ((**b).clone(), env.clone());
            flat(eval(a, env), move |v| eval(&b, &env2.with_dot(v)))
        }
        T::As(a, x, b) => {
            let (b, env2, x) = ((**b).clone(), env.clone(), x.clone());
            flat(eval(a, env), move |v| eval(&b, &env2.bind(&x, v)))
        }
        T::If(c, a, b) => {
            if c.test(&env.dot) {
                eval(a, env)
            } else {
                eval(b, env)
            }
        }
        T::Alt(a, b) => {
            let seen = Rc::new(Cell::new(false));
            let errored = Rc::new(Cell::new(false));
            let (s2, e2) = (seen.clone(), errored.clone());
            let l = control(eval(a, env), move |_, v| {
                if v.truthy() {
                    s2.set(true);
                    (Some(v.clone()), false)
                } else {
                    (None, false)
                }
            });
            let l: Stream = Box::new(l.inspect(move |s| {
                if matches!(s, Step::Err(_)) {
                    e2.set(true)
                }
            }));
            let (b, env2) = ((**b).clone(), env.clone());
            chain(l, move || if seen.get() || errored.get() { empty() } else { eval(&b, &env2) })
        }
        T::Try(a, b) => try_catch(eval(a, env), Some(((**b).clone(), env.clone()))),
        T::TryQ(a) => try_catch(eval(a, env), None),
        T::Label(l, a) => {
            let id = env.sh.next_label.get();
            env.sh.next_label.set(id + 1);
            let mut s = eval(a, &env.bind_label(l, id));
            let mut done = false;
            Box::new(std::iter::from_fn(move || {
                if done {
                    return None;
                }
                match s.next() {
                    Some(Step::Err(X::Break(b))) if b == id => {
                        done = true;
                        None
                    }
                    r => r,
                }
            }))
        }
        T::Break(l) => once(Step::Err(X::Break(env.label(l)))),
        T::First(a) => control(eval(a, env), |_, v| (Some(v.clone()), true)),
        T::Limit(n, a) => {
            let n = *n;
            if n <= 0 {
                empty()
            } else {
                control(eval(a, env), move |k, v| (Some(v.clone()), k as i64 >= n))
            }
        }
        T::Skip(n, a) => {
            let n = *n;
            control(eval(a, env), move |k, v| (if k as i64 > n { Some(v.clone()) } else { None }, false))
        }
        T::Nth(n, a) => {
            let n = *n;
            control(eval(a, env), move |k, v| {
                if k as i64 > n {
                    (Some(v.clone()), true)
                } else {
                    (None, false)
                }
            })
        }
        T::IsEmpty(a) => control_end(eval(a, env), |_, _| (Some(V::False), true), V::True),
        T::Any(a, c) => {
            let c = c.clone();
            control_end(
                eval(a, env),
                move |_, v| if c.test(v) { (Some(V::True), true) } else { (None, false) },
                V::False,
            )
        }
        T::All(a, c) => {
            let c = c.clone();
            control_end(
                eval(a, env),
                move |_, v| if !c.test(v) { (Some(V::False), true) } else { (None, false) },
                V::True,
            )
        }
        T::Foreach(s, x, init, u, ext) => fold(eval(s, env), env.clone(), x.clone(), V::Int(*init), (**u).clone(), ext.as_deref().cloned(), false),
        T::Reduce(s, x, init, u) => fold(eval(s, env), env.clone(), x.clone(), V::Int(*init), (**u).clone(), None, true),
        T::Arr(a) => {
            let mut s = eval(a, env);
            let mut acc = Some(Vec::new());
            Box::new(std::iter::from_fn(move || loop {
                acc.as_ref()?;
                match s.next() {
                    None => return Some(Step::Out(V::Arr(acc.take().unwrap()))),
                    Some(Step::Out(v)) => acc.as_mut().unwrap().push(v),
                    Some(Step::Err(x)) => {
                        acc = None;
                        return Some(Step::Err(x));
                    }
                    Some(e) => return Some(e),
                }
            }))
        }
        T::Rec(a) | T::Repeat(a) => {
            // E, E, E, ... on the same input (a loop rather than nested chains)
            let (a2, env2) = ((**a).clone(), env.clone());
            let mut cur = eval(&a2, &env2);
            let mut done = false;
            Box::new(std::iter::from_fn(move || loop {
                if done {
                    return None;
                }
                match cur.next() {
                    Some(Step::Err(x)) => {
                        done = true;
                        return Some(Step::Err(x));
                    }
                    Some(s) => return Some(s),
                    None => cur = eval(&a2, &env2),
                }
            }))
        }
        T::Recurse(f) => {
            let (f2, env2, me) = ((**f).clone(), env.clone(), t.clone());
            chain(once(Step::Out(env.dot.clone())), move || {
                let env3 = env2.clone();
                flat(eval(&f2, &env2), move |v| eval(&me, &env3.with_dot(v)))
            })
        }
        T::While(c, f) => {
            if c.test(&env.dot) {
                let (f2, env2, me) = ((**f).clone(), env.clone(), t.clone());
                chain(once(Step::Out(env.dot.clone())), move || {
                    let env3 = env2.clone();
                    flat(eval(&f2, &env2), move |v| eval(&me, &env3.with_dot(v)))
                })
            } else {
                empty()
            }
        }
        T::Until(c, f) => {
            if c.test(&env.dot) {
                once(Step::Out(env.dot.clone()))
            } else {
                let (env2, me) = (env.clone(), t.clone());
                flat(eval(f, env), move |v| eval(&me, &env2.with_dot(v)))
            }
        }
        T::SliceTo(a, z) => {
            let a = *a;
            flat(eval(z, env), move |v| {
                let len = ARR.len() as i64;
                let upto = match v {
                    V::Int(i) => Some(if i < 0 { (len + i).max(0) } else { i.min(len) }),
                    V::Null => Some(len),
                    _ => None,
                };
                match upto {
                    Some(u) => {
                        let from = a.clamp(0, len);
                        let vals = if u > from { ARR[from as usize..u as usize].iter().map(|x| V::Int(*x)).collect() } else { vec![] };
                        once(Step::Out(V::Arr(vals)))
                    }
                    None => once(Step::Err(X::Error(V::Str("cannot use as slice bound".into())))),
                }
            })
        }
        T::IndexAt(z) => flat(eval(z, env), move |v| match v {
            V::Int(i) => {
                let len = ARR.len() as i64;
                let k = if i < 0 { len + i } else { i };
                once(Step::Out(if (0..len).contains(&k) { V::Int(ARR[k as usize]) } else { V::Null }))
            }
            V::Arr(_) => {
                // an array as index asks for the positions of a sub-array: not modelled
                UNMODELLED.with(|u| u.set(true));
                once(Step::Err(X::Error(V::Str("cannot index array".into()))))
            }
            _ => once(Step::Err(X::Error(V::Str("cannot index array".into())))),
        }),
        T::PathOf(e) => {
            let root = V::Arr(vec![
                V::Arr(vec![V::Int(10), V::Int(20), V::Int(30)]),
                V::Arr(vec![V::Int(40), V::Int(50)]),
            ]);
            let s = eval(e, &env.with_dot(V::At(Box::new(root), vec![])));
            flat(s, |v| match v {
                V::At(_, p) => once(Step::Out(V::Arr(p.into_iter().map(V::Int).collect()))),
                _ => once(Step::Err(X::Error(V::Str("invalid path expression".into())))),
            })
        }
        T::Idx(i) => match &env.dot {
            V::At(v, p) => match &**v {
                V::Arr(a) => {
                    let len = a.len() as i64;
                    let k = if *i < 0 { len + *i } else { *i };
                    let e = if (0..len).contains(&k) { a[k as usize].clone() } else { V::Null };
                    let mut p2 = p.clone();
                    p2.push(*i);
                    once(Step::Out(V::At(Box::new(e), p2)))
                }
                V::Null => {
                    let mut p2 = p.clone();
                    p2.push(*i);
                    once(Step::Out(V::At(Box::new(V::Null), p2)))
                }
                _ => once(Step::Err(X::Error(V::Str("cannot index".into())))),
            },
            _ => once(Step::Err(X::Error(V::Str("not in path mode".into())))),
        },
        T::Iter => match &env.dot {
            V::At(v, p) => match &**v {
                V::Arr(a) => {
                    let items: Vec<Step> = a
                        .iter()
                        .enumerate()
                        .map(|(k, e)| {
                            let mut p2 = p.clone();
                            p2.push(k as i64);
                            Step::Out(V::At(Box::new(e.clone()), p2))
                        })
                        .collect();
                    steps(items)
                }
                _ => once(Step::Err(X::Error(V::Str("cannot iterate".into())))),
            },
            _ => once(Step::Err(X::Error(V::Str("not in path mode".into())))),
        },
        T::Pass(i) => steps(vec![Step::E(Ev::P(i.to_string())), Step::Out(env.dot.clone())]),
        T::Interp(e) => flat(eval(e, env), |v| once(Step::Out(V::Str(format!("x{}y", v.tostring()))))),
        T::ObjVal(e) => flat(eval(e, env), |v| once(Step::Out(V::Raw(format!("{{\"a\":{}}}", v.json()))))),
        T::AddR(e, n) => {
            let n = *n;
            flat(eval(e, env), move |v| match v.add(&V::Int(n)) {
                Ok(v) => once(Step::Out(v)),
                Err(e) => once(Step::Err(X::Error(e))),
            })
        }
        T::AddL(n, e) => {
            let n = *n;
            flat(eval(e, env), move |v| match V::Int(n).add(&v) {
                Ok(v) => once(Step::Out(v)),
                Err(e) => once(Step::Err(X::Error(e))),
            })
        }
        T::EqLit(e, n) => {
            let n = *n;
            flat(eval(e, env), move |v| once(Step::Out(if v.cmp(&V::Int(n)) == std::cmp::Ordering::Equal { V::True } else { V::False })))
        }
        T::LimitZ(z, f) => {
            let (env2, f2) = (env.clone(), f.clone());
            flat(eval(z, env), move |c| match c.plain() {
                V::Int(n) if *n <= 0 => empty(),
                V::Int(n) => {
                    let n = *n;
                    control(eval(&f2, &env2), move |k, v| (Some(v.clone()), k as i64 >= n))
                }
                _ => {
                    UNMODELLED.with(|u| u.set(true));
                    once(Step::Err(X::Error(V::Str("limit".into()))))
                }
            })
        }
        T::RangeZ(z, n) => {
            let to = *n;
            flat(eval(z, env), move |v| match v.plain() {
                V::Int(a) => {
                    let mut cur = *a;
                    Box::new(std::iter::from_fn(move || {
                        (cur < to).then(|| {
                            let v = cur;
                            cur += 1;
                            Step::Out(V::Int(v))
                        })
                    })) as Stream
                }
                _ => {
                    UNMODELLED.with(|u| u.set(true));
                    once(Step::Err(X::Error(V::Str("range".into()))))
                }
            })
        }
        T::Last(f) => {
            let mut s = eval(f, env);
            let mut last: Option<V> = None;
            let mut done = false;
            Box::new(std::iter::from_fn(move || {
                if done {
                    return None;
                }
                loop {
                    match s.next() {
                        None => {
                            done = true;
                            return last.take().map(Step::Out);
                        }
                        Some(Step::Out(v)) => last = Some(v),
                        Some(Step::Err(x)) => {
                            done = true;
                            return Some(Step::Err(x));
                        }
                        Some(e) => return Some(e),
                    }
                }
            }))
        }
        T::IdxZ(z) => {
            // the index expression runs in value mode on the value at the current path
            let here = env.dot.clone();
            let plain_env = env.with_dot(here.plain().clone());
            flat(eval(z, &plain_env), move |iv| match (&here, iv.plain()) {
                (V::At(v, p), V::Int(i)) => {
                    let e = match &**v {
                        V::Arr(a) => {
                            let len = a.len() as i64;
                            let k = if *i < 0 { len + *i } else { *i };
                            if (0..len).contains(&k) { a[k as usize].clone() } else { V::Null }
                        }
                        V::Null => V::Null,
                        _ => return once(Step::Err(X::Error(V::Str("cannot index".into())))),
                    };
                    let mut p2 = p.clone();
                    p2.push(*i);
                    once(Step::Out(V::At(Box::new(e), p2)))
                }
                _ => {
                    // an index that is no integer: the tree yields null for `null | .[x]`, positions
                    // for an array index, ... - none of which this model describes
                    UNMODELLED.with(|u| u.set(true));
                    once(Step::Err(X::Error(V::Str("cannot index".into()))))
                }
            })
        }
        T::Range(a, b, by) => {
            let (mut cur, to, by) = (*a, *b, *by);
            Box::new(std::iter::from_fn(move || {
                let go = match by.cmp(&0) {
                    std::cmp::Ordering::Greater => cur < to,
                    std::cmp::Ordering::Less => cur > to,
                    std::cmp::Ordering::Equal => cur != to,
                };
                go.then(|| {
                    let v = cur;
                    cur += by;
                    Step::Out(V::Int(v))
                })
            }))
        }
    }
}

fn try_catch(mut s: Stream, handler: Option<(T, Env)>) -> Stream {
    let mut h: Option<Stream> = None;
    let mut done = false;
    Box::new(std::iter::from_fn(move || {
        if done {
            return None;
        }
        if let Some(hs) = h.as_mut() {
            let r = hs.next();
            if r.is_none() || matches!(r, Some(Step::Err(_))) {
                done = true;
            }
            return r;
        }
        match s.next() {
            Some(Step::Err(X::Error(e))) => match &handler {
                Some((t, env)) => {
                    let mut hs = eval(t, &env.with_dot(e));
                    let r = hs.next();
                    if r.is_none() || matches!(r, Some(Step::Err(_))) {
                        done = true;
                    }
                    h = Some(hs);
                    r
                }
                None => {
                    done = true;
                    None
                }
            },
            Some(Step::Err(x)) => {
                done = true;
                Some(Step::Err(x))
            }
            None => {
                done = true;
                None
            }
            r => r,
        }
    }))
}

/// The outputs of a fold's source: forced on demand, each element (and its effects) once,
/// shared by all branches of the fold (the manual's `x1, ..., xn`).
struct Memo {
    src: RefCell<Stream>,
    /// forced elements
    vals: RefCell<Vec<V>>,
    /// how the source ended, once known: None = normal end
    end: RefCell<Option<Option<X>>>,
}

enum Item {
    Val(V),
    End,
    Err(X),
}

impl Memo {
    /// element `i` together with the effects its (first) forcing performs
    fn get(&self, i: usize) -> (Vec<Step>, Item) {
        if let Some(v) = self.vals.borrow().get(i) {
            return (vec![], Item::Val(v.clone()));
        }
        if let Some(e) = &*self.end.borrow() {
            return (vec![], e.clone().map_or(Item::End, Item::Err));
        }
        let mut effects = Vec::new();
        loop {
            match self.src.borrow_mut().next() {
                None => {
                    *self.end.borrow_mut() = Some(None);
                    return (effects, Item::End);
                }
                Some(Step::Out(v)) => {
                    self.vals.borrow_mut().push(v.clone());
                    return (effects, Item::Val(v));
                }
                Some(Step::Err(x)) => {
                    *self.end.borrow_mut() = Some(Some(x.clone()));
                    return (effects, Item::Err(x));
                }
                Some(e) => effects.push(e),
            }
        }
    }
}

/// foreach / reduce as the manual defines them:
/// `init | (x1 as $x | update | (project, (x2 as $x | update | (project, ...))))`,
/// the source being pulled on demand; `update` may have any number of outputs.
fn fold(src: Stream, env: Env, x: String, init: V, upd: T, ext: Option<T>, reduce: bool) -> Stream {
    let memo = Rc::new(Memo { src: RefCell::new(src), vals: RefCell::new(Vec::new()), end: RefCell::new(None) });
    fold_rec(memo, 0, init, env, x, upd, ext, reduce)
}

#[allow(clippy::too_many_arguments)]
fn fold_rec(memo: Rc<Memo>, i: usize, state: V, env: Env, x: String, upd: T, ext: Option<T>, reduce: bool) -> Stream {
    lazy(move || {
        let (effects, item) = memo.get(i);
        match item {
            Item::End => {
                let mut v = effects;
                if reduce {
                    v.push(Step::Out(state));
                }
                steps(v)
            }
            Item::Err(e) => {
                let mut v = effects;
                v.push(Step::Err(e));
                steps(v)
            }
            Item::Val(v) => {
                let e2 = env.bind(&x, v).with_dot(state);
                let ups = eval(&upd, &e2);
                chain(steps(effects), move || {
                    flat(ups, move |s2| {
                        let proj: Stream = if reduce {
                            empty()
                        } else {
                            match &ext {
                                None => once(Step::Out(s2.clone())),
                                Some(t) => eval(t, &e2.with_dot(s2.clone())),
                            }
                        };
                        let (memo, env, x, upd, ext) = (memo.clone(), env.clone(), x.clone(), upd.clone(), ext.clone());
                        chain(proj, move || fold_rec(memo, i + 1, s2, env, x, upd, ext, reduce))
                    })
                })
            }
        }
    })
}
