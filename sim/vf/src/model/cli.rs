//! The command-line reference model (DESIGN.md Appendix A).
//!
//! Transcribed from `docs/cli.dj`: an invocation is a *structured* value (the generator renders
//! it to an argv in one of its documented spellings, so the tree's argument parser is under
//! test, not consulted), inputs are a deque of values obtained with the slice parsers, the
//! main loop pops values, `input`/`inputs` pop from the same deque, the first error ends
//! everything. The interpreter, the slice parsers and the value writers of the tree are shared
//! (their correctness is C01/C07/C14's subject); the control flow of `main.rs`, `cli.rs`,
//! `filter.rs`, `data.rs`, `input.rs`, `read/formats.rs`, `write/formats.rs` is not reused.
use jaq_all::data::{Ctx, Data, DataKind, Runner};
use jaq_all::fmts::write::Writer;
use jaq_all::fmts::Format;
use jaq_all::jaq_core::load::{self, import, Arena, File, Loader};
use jaq_all::jaq_core::{compile::Compiler, ValT, Vars};
use jaq_all::jaq_std::input::RcIter;
use jaq_all::json::write::{Pp, Styles};
use jaq_all::json::Val;
use serde::{Deserialize, Serialize};
use std::cell::RefCell;
use std::collections::VecDeque;
use std::rc::Rc;

#[derive(Clone, Debug, Serialize, Deserialize, PartialEq, Eq)]
pub enum NamedKind {
    Arg,
    ArgJson,
    RawFile,
    SlurpFile,
}

#[derive(Clone, Debug, Serialize, Deserialize, Default)]
pub struct Invocation {
    pub null_input: bool,
    pub slurp: bool,
    /// `--from F`, `-R` (= raw), `--raw-input0` (= raw0)
    pub from: Option<String>,
    /// `--to F`, `-r` (= raw), `--raw-output0` (= raw0)
    pub to: Option<String>,
    pub join: bool,
    pub compact: bool,
    pub tab: bool,
    pub indent: Option<usize>,
    pub sort_keys: bool,
    pub color: bool,
    pub mono: bool,
    pub exit_status: bool,
    /// (kind, name, value or path)
    pub named: Vec<(NamedKind, String, String)>,
    /// `$ARGS.positional` (after `--args`)
    pub positional: Vec<String>,
    pub filter: Option<String>,
    /// the filter text lives in this file (`-f`)
    pub filter_file: Option<String>,
    /// input files as written
    pub files: Vec<String>,
    pub env: Vec<(String, String)>,
    /// standard output is a terminal (colours are then on by default)
    #[serde(default)]
    pub tty: bool,
}

/// Everything the model may need to read: path as written -> bytes (None = does not exist).
pub trait Fs {
    fn read(&self, path: &str) -> Option<Vec<u8>>;
}

#[derive(Clone, Debug, PartialEq, Eq, Serialize, Deserialize)]
pub enum Stderr {
    Empty,
    NonEmpty,
    Any,
}

#[derive(Clone, Debug, PartialEq, Eq, Serialize, Deserialize)]
pub enum End {
    /// the process terminates
    Done,
    /// blocked for ever on a read of stdin
    Pending,
}

#[derive(Clone, Debug, Serialize, Deserialize)]
pub enum Event {
    /// the j-th value (0-based) of input source `file` was handed out (to the main loop or
    /// to `input`/`inputs`)
    In(usize, usize),
    /// the k-th output was written
    Out(usize),
}

#[derive(Clone, Debug, Serialize, Deserialize)]
pub struct Prediction {
    /// stdout, one chunk per output value
    pub chunks: Vec<Vec<u8>>,
    /// accepted exit statuses
    pub exits: Vec<i32>,
    pub stderr: Stderr,
    pub end: End,
    pub events: Vec<Event>,
    /// why the run ended, for reports
    pub why: String,
    /// the filter used `debug`/`stderr`/`halt_error`, which write to stderr themselves
    pub stderr_by_filter: bool,
}

impl Prediction {
    pub fn stdout(&self) -> Vec<u8> {
        self.chunks.concat()
    }
    fn fail(exits: &[i32], why: impl Into<String>) -> Self {
        Prediction {
            chunks: vec![],
            exits: exits.to_vec(),
            stderr: Stderr::NonEmpty,
            end: End::Done,
            events: vec![],
            why: why.into(),
            stderr_by_filter: false,
        }
    }
}

pub fn parse_format(s: &str) -> Option<Format> {
    Format::parse(s)
}

fn format_of_path(path: &str) -> Option<Format> {
    let name = path.rsplit('/').next().unwrap_or(path);
    // a leading dot does not start an extension
    let (stem, ext) = name.rsplit_once('.')?;
    if stem.is_empty() {
        return None;
    }
    Some(match ext {
        "json" => Format::Json,
        "yaml" | "yml" => Format::Yaml,
        "cbor" => Format::Cbor,
        "toml" => Format::Toml,
        "xml" | "xhtml" => Format::Xml,
        "csv" => Format::Csv,
        "tsv" => Format::Tsv,
        _ => return None,
    })
}

type ValIter<'a> = Box<dyn Iterator<Item = Result<Val, String>> + 'a>;

/// Values of one input source, lazily, with the slice parsers.
fn values<'a>(fmt: Format, bytes: &'a [u8], slurp: bool) -> Result<ValIter<'a>, String> {
    use jaq_all::fmts::read;
    let es = |e: &dyn std::fmt::Display| e.to_string();
    let as_str = |b: &'a [u8]| std::str::from_utf8(b).map_err(|e| format!("utf8: {e}"));
    let raw_str = |b: &[u8]| Val::utf8_str(b.to_vec());
    let it: ValIter<'a> = match fmt {
        Format::Raw if slurp => return Ok(Box::new(std::iter::once(Ok(raw_str(bytes))))),
        Format::Raw => {
            // lines: split at \n, a final line without \n counts, one trailing \r is dropped
            let mut lines: Vec<&[u8]> = bytes.split(|b| *b == b'\n').collect();
            if lines.last().is_some_and(|l| l.is_empty()) {
                lines.pop();
            }
            Box::new(
                lines
                    .into_iter()
                    .map(move |l| Ok(raw_str(l.strip_suffix(b"\r").unwrap_or(l)))),
            )
        }
        Format::Raw0 => {
            let mut recs: Vec<&[u8]> = bytes.split(|b| *b == 0).collect();
            if recs.last().is_some_and(|l| l.is_empty()) {
                recs.pop();
            }
            Box::new(recs.into_iter().map(move |l| Ok(raw_str(l))))
        }
        Format::Json => Box::new(read::json::parse_many(bytes).map(move |r| r.map_err(|e| es(&e)))),
        Format::Cbor => Box::new(read::cbor::parse_many(bytes).map(move |r| r.map_err(|e| es(&e)))),
        Format::Yaml => {
            let s = as_str(bytes).map_err(|e| format!("io:{e}"))?;
            Box::new(read::yaml::parse_many(s).map(move |r| r.map_err(|e| es(&e))))
        }
        Format::Xml => {
            let s = as_str(bytes).map_err(|e| format!("io:{e}"))?;
            Box::new(read::xml::parse_many(s).map(move |r| r.map_err(|e| es(&e))))
        }
        Format::Toml => {
            let s = as_str(bytes).map_err(|e| format!("io:{e}"))?;
            return Ok(Box::new(std::iter::once(
                read::toml::parse(s).map_err(|e| es(&e)),
            )));
        }
        Format::Csv => Box::new(
            read::tabular::read_csv(bytes.iter().copied().map(Ok::<u8, std::io::Error>))
                .map(move |r| r.map_err(|e| es(&e))),
        ),
        Format::Tsv => Box::new(
            read::tabular::read_tsv(bytes.iter().copied().map(Ok::<u8, std::io::Error>))
                .map(move |r| r.map_err(|e| es(&e))),
        ),
        _ => return Err("unknown format".into()),
    };
    if slurp {
        // one array of all values; an error anywhere is the (single) result
        let all: Result<Vec<Val>, String> = it.collect();
        Ok(Box::new(std::iter::once(all.map(|v| v.into_iter().collect()))))
    } else {
        Ok(it)
    }
}

/// State shared between the main loop and `input`/`inputs`.
struct Source<'a> {
    iter: ValIter<'a>,
    /// index of the input source (file number; 0 for stdin)
    file: usize,
    handed: usize,
    /// stdin prefix semantics: when the values of the prefix are used up the reader blocks
    pending_after: bool,
    pending: bool,
    /// when the values are used up, the read fails (injected I/O error)
    fail_after: Option<String>,
    failed: bool,
    /// the underlying parser reported its end or an error: it is never polled again
    /// (a deque has no "after the end")
    done: bool,
    /// the stream ended with a parse error
    errored: bool,
    events: Rc<RefCell<Vec<Event>>>,
}

impl Iterator for Source<'_> {
    type Item = Result<Val, String>;
    fn next(&mut self) -> Option<Self::Item> {
        if self.pending {
            return None;
        }
        if self.failed {
            // the world says every read beyond this point fails, not only the first one
            flag_iofail();
            return Some(Err("@@IOFAIL@@read error".into()));
        }
        if self.done && self.errored {
            // a parse error was handed out (and evidently caught by the filter): what a further
            // poll of the broken stream yields is not specified by anything
            UNSPEC.with(|p| p.set(true));
            return None;
        }
        let item = if self.done { None } else { self.iter.next() };
        if matches!(item, Some(Err(_))) {
            self.errored = true;
        }
        if !matches!(item, Some(Ok(_))) {
            self.done = true;
        }
        match item {
            Some(r) => {
                if r.is_ok() {
                    self.events
                        .borrow_mut()
                        .push(Event::In(self.file, self.handed));
                    self.handed += 1;
                }
                Some(r)
            }
            None if self.pending_after => {
                self.pending = true;
                flag_pending();
                Some(Err("@@PENDING@@".into()))
            }
            None => match self.fail_after.clone() {
                Some(e) => {
                    self.failed = true;
                    flag_iofail();
                    Some(Err(format!("@@IOFAIL@@{e}")))
                }
                None => None,
            },
        }
    }
}

pub fn writer_of(inv: &Invocation) -> Result<Writer, String> {
    let to = match &inv.to {
        Some(f) => Some(parse_format(f).ok_or("bad --to")?),
        None if inv.join => Some(Format::Raw),
        None => None,
    };
    // the manual: colours are used if standard output is a terminal, unless NO_COLOR is set to a
    // non-empty value; -C forces them on, -M off (and wins)
    let no_color = inv.env.iter().rev().find(|(k, _)| k == "NO_COLOR").is_some_and(|(_, v)| !v.is_empty());
    let color = !inv.mono && (inv.color || (inv.tty && !no_color));
    let styles = if color {
        let c = Styles::ansi();
        match inv.env.iter().rev().find(|(k, _)| k == "JQ_COLORS") {
            Some((_, s)) => c.parse(s),
            None => c,
        }
    } else {
        Styles::default()
    };
    let indent = if inv.tab {
        "\t".to_string()
    } else {
        " ".repeat(inv.indent.unwrap_or(2))
    };
    Ok(Writer {
        format: to.unwrap_or(Format::Json),
        pp: Pp {
            indent: (!inv.compact).then_some(indent),
            sort_keys: inv.sort_keys,
            styles,
            sep_space: !inv.compact || matches!(to, Some(Format::Yaml)),
        },
        join: inv.join,
    })
}

/// How the standard input behaves in this run.
#[derive(Clone, Debug)]
pub enum StdinMode {
    /// all bytes, then end of file
    Eof,
    /// the bytes, then the reader blocks for ever
    Stall,
    /// the bytes, then a failing read
    Fail,
}

pub struct Stdin<'a> {
    pub bytes: &'a [u8],
    pub mode: StdinMode,
}

/// Predict the observable behaviour of `jaq` for this invocation.
pub fn predict(inv: &Invocation, fs: &dyn Fs, stdin: &Stdin) -> Prediction {
    reset_flags();
    // ---- variables -------------------------------------------------------------------
    let mut names: Vec<String> = Vec::new();
    let mut vals: Vec<Val> = Vec::new();
    let mut named_obj: Vec<(Val, Val)> = Vec::new();
    let json_all = |b: &[u8]| -> Result<Val, String> {
        jaq_all::fmts::read::json::parse_many(b)
            .map(|r| r.map_err(|e| e.to_string()))
            .collect::<Result<Vec<_>, _>>()
            .map(|v| v.into_iter().collect())
    };
    // the documented order of `$ARGS.named` is not specified; the tree binds
    // --arg, --rawfile, --slurpfile, --argjson in this order and the golden tests pin it
    let order = [
        NamedKind::Arg,
        NamedKind::RawFile,
        NamedKind::SlurpFile,
        NamedKind::ArgJson,
    ];
    for kind in order {
        for (k, name, value) in &inv.named {
            if *k != kind {
                continue;
            }
            let v = match k {
                NamedKind::Arg => Val::utf8_str(value.clone().into_bytes()),
                NamedKind::ArgJson => {
                    match jaq_all::fmts::read::json::parse_single(value.as_bytes()) {
                        Ok(v) => v,
                        Err(e) => return Prediction::fail(&[2, 5], format!("--argjson: {e}")),
                    }
                }
                NamedKind::RawFile => match fs.read(value) {
                    Some(b) => Val::utf8_str(b),
                    None => return Prediction::fail(&[2], format!("--rawfile {value}: missing")),
                },
                NamedKind::SlurpFile => match fs.read(value) {
                    Some(b) => match json_all(&b) {
                        Ok(v) => v,
                        Err(e) => return Prediction::fail(&[2, 5], format!("--slurpfile: {e}")),
                    },
                    None => {
                        return Prediction::fail(&[2], format!("--slurpfile {value}: missing"))
                    }
                },
            };
            names.push(name.clone());
            vals.push(v.clone());
            named_obj.push((Val::from(name.clone()), v));
        }
    }
    let positional: Val = inv.positional.iter().cloned().map(Val::from).collect();
    let args = Val::obj(
        [
            (Val::from("positional".to_string()), positional),
            (Val::from("named".to_string()), Val::obj(named_obj.into_iter().collect())),
        ]
        .into_iter()
        .collect(),
    );
    names.push("ARGS".into());
    vals.push(args);
    names.push("ENV".into());
    vals.push(Val::obj(
        inv.env
            .iter()
            .map(|(k, v)| (Val::from(k.clone()), Val::from(v.clone())))
            .collect(),
    ));
    let fname_idx = vals.len();
    names.push("!input_filename".into());
    vals.push(Val::Null);

    // ---- the filter ------------------------------------------------------------------
    let code: String = match (&inv.filter, &inv.filter_file) {
        (_, Some(p)) => match fs.read(p) {
            Some(b) => match String::from_utf8(b) {
                Ok(s) => s,
                Err(_) => return Prediction::fail(&[2], "filter file is not UTF-8"),
            },
            None => return Prediction::fail(&[2], "filter file missing"),
        },
        (Some(f), None) => f.clone(),
        (None, None) => ".".into(),
    };
    let var_names: Vec<String> = names.iter().map(|v| format!("${v}")).collect();
    let arena = Arena::default();
    let extra = core::iter::once(load::parse::Def {
        name: "input_filename",
        args: Vec::new(),
        body: load::parse::Term::Var("$!input_filename"),
    });
    let loader = Loader::new(jaq_all::defs().chain(extra));
    let modules = match loader.load(&arena, File { path: (), code: &code }) {
        Ok(m) => m,
        Err(_) => return Prediction::fail(&[3], "filter does not parse"),
    };
    if import(&modules, |_p| Err("no data imports in this model".to_string())).is_err() {
        return Prediction::fail(&[3], "data import");
    }
    let filter = match Compiler::default()
        .with_funs(jaq_all::data::funs())
        .with_global_vars(var_names.iter().map(|v| &**v))
        .compile(modules)
    {
        Ok(f) => f,
        Err(_) => return Prediction::fail(&[3], "filter does not compile"),
    };
    let filter: jaq_all::jaq_core::Filter<DataKind> = filter;

    let writer = match writer_of(inv) {
        Ok(w) => w,
        Err(e) => return Prediction::fail(&[2], e),
    };
    let runner = Runner {
        null_input: inv.null_input,
        color_err: false,
        writer: writer_of(inv).unwrap(),
    };
    let from = match &inv.from {
        Some(f) => match parse_format(f) {
            Some(f) => Some(f),
            None => return Prediction::fail(&[2], "bad --from"),
        },
        None => None,
    };
    let stderr_by_filter = ["debug", "stderr", "halt_error"]
        .iter()
        .any(|w| code.contains(w));

    // ---- the main loop ---------------------------------------------------------------
    let events = Rc::new(RefCell::new(Vec::new()));
    let mut chunks: Vec<Vec<u8>> = Vec::new();
    let mut last_overall: Option<bool> = None;
    let mut last_of_last_file: Option<bool> = None;
    let finish = |chunks: Vec<Vec<u8>>,
                  exits: Vec<i32>,
                  stderr: Stderr,
                  end: End,
                  why: String,
                  events: &Rc<RefCell<Vec<Event>>>| Prediction {
        chunks,
        exits,
        stderr,
        end,
        events: events.borrow().clone(),
        why: if UNSPEC.with(|p| p.get()) {
            format!("@inconclusive: the input stream was polled again after a parse error had been caught ({why})")
        } else {
            why
        },
        stderr_by_filter,
    };

    // input sources: stdin or the files, in order
    enum Src<'a> {
        Stdin(&'a Stdin<'a>),
        File(String),
    }
    let sources: Vec<Src> = if inv.files.is_empty() {
        vec![Src::Stdin(stdin)]
    } else {
        inv.files.iter().cloned().map(Src::File).collect()
    };
    for (fi, src) in sources.iter().enumerate() {
        let (bytes, fmt, name, pending_after, fail_after): (
            std::borrow::Cow<[u8]>,
            Format,
            String,
            bool,
            Option<String>,
        ) = match src {
            Src::Stdin(s) => (
                std::borrow::Cow::Borrowed(s.bytes),
                from.unwrap_or(Format::Json),
                "<stdin>".into(),
                matches!(s.mode, StdinMode::Stall),
                matches!(s.mode, StdinMode::Fail).then(|| "read error".to_string()),
            ),
            Src::File(p) => match fs.read(p) {
                Some(b) => (
                    std::borrow::Cow::Owned(b),
                    from.or_else(|| format_of_path(p)).unwrap_or(Format::Json),
                    p.clone(),
                    false,
                    None,
                ),
                None => {
                    return finish(
                        chunks,
                        vec![2],
                        Stderr::NonEmpty,
                        End::Done,
                        format!("input file {p} missing"),
                        &events,
                    )
                }
            },
        };
        let whole_string = matches!(fmt, Format::Yaml | Format::Xml | Format::Toml);
        if whole_string && pending_after {
            // the whole input is read before anything else happens
            return finish(
                chunks,
                vec![],
                Stderr::Any,
                End::Pending,
                "whole-input format on a stalling stdin".into(),
                &events,
            );
        }
        if whole_string && fail_after.is_some() {
            return finish(
                chunks,
                vec![2, 5],
                Stderr::NonEmpty,
                End::Done,
                "read failure while reading the whole input".into(),
                &events,
            );
        }
        let iter: ValIter = if inv.slurp && (pending_after || fail_after.is_some()) {
            // the single slurped value can never be completed
            Box::new(std::iter::empty())
        } else {
            match values(fmt, &bytes, inv.slurp) {
                Ok(i) => i,
                Err(e) => {
                    return finish(
                        chunks,
                        vec![2, 5],
                        Stderr::NonEmpty,
                        End::Done,
                        format!("input not decodable: {e}"),
                        &events,
                    )
                }
            }
        };
        let source = Source {
            iter,
            file: fi,
            handed: 0,
            pending_after,
            pending: false,
            fail_after,
            failed: false,
            done: false,
            errored: false,
            events: events.clone(),
        };
        let boxed: Box<dyn Iterator<Item = Result<Val, String>> + '_> = Box::new(source);
        let rc = RcIter::new(boxed);
        let mut vars = vals.clone();
        vars[fname_idx] = Val::utf8_str(name.clone().into_bytes());
        let data = Data {
            runner: &runner,
            lut: &filter.lut,
            inputs: &rc,
        };
        let ctx = Ctx::new(&data, Vars::new(vars));
        last_of_last_file = None;

        let mut first = true;
        loop {
            let x = if inv.null_input {
                if !first {
                    break;
                }
                first = false;
                Val::Null
            } else {
                match (&rc).next() {
                    None => break,
                    Some(Ok(x)) => x,
                    Some(Err(e)) if e == "@@PENDING@@" => {
                        return finish(
                            chunks,
                            vec![],
                            Stderr::Any,
                            End::Pending,
                            "main loop waits for stdin".into(),
                            &events,
                        )
                    }
                    Some(Err(e)) if e.starts_with("@@IOFAIL@@") => {
                        return finish(
                            chunks,
                            vec![2, 5],
                            Stderr::NonEmpty,
                            End::Done,
                            "stdin read failed".into(),
                            &events,
                        )
                    }
                    Some(Err(e)) => {
                        return finish(
                            chunks,
                            vec![5],
                            Stderr::NonEmpty,
                            End::Done,
                            format!("input parse error: {e}"),
                            &events,
                        )
                    }
                }
            };
            let mut outs = filter.id.run((ctx.clone(), x));
            loop {
                let o = outs.next();
                // blocked inside the computation of this output?
                let pending_now = events_pending(&rc);
                if pending_now {
                    return finish(
                        chunks,
                        vec![],
                        Stderr::Any,
                        End::Pending,
                        "filter waits for stdin".into(),
                        &events,
                    );
                }
                let Some(o) = o else { break };
                match o {
                    Ok(v) => {
                        let mut buf = Vec::new();
                        let b = v.as_bool();
                        match jaq_all::fmts::write::write(&mut buf, &writer, &v) {
                            Ok(()) => {
                                events.borrow_mut().push(Event::Out(chunks.len()));
                                chunks.push(buf);
                                last_overall = Some(b);
                                last_of_last_file = Some(b);
                            }
                            Err(e) => {
                                // a value outside the output format's domain; what was written
                                // of it before the error is unspecified: accepted as a prefix
                                chunks.push(buf);
                                let mut p = finish(
                                    chunks,
                                    vec![2],
                                    Stderr::NonEmpty,
                                    End::Done,
                                    format!("@partial-last: cannot write value: {e}"),
                                    &events,
                                );
                                p.why.push_str("");
                                return p;
                            }
                        }
                    }
                    Err(exn) => {
                        return match exn.get_err() {
                            Ok(e) => {
                                let failed_read = io_failed(&rc);
                                finish(
                                    chunks,
                                    if failed_read { vec![2, 5] } else { vec![5] },
                                    Stderr::NonEmpty,
                                    End::Done,
                                    format!("uncaught error: {e}"),
                                    &events,
                                )
                            }
                            Err(exn) => match exn.get_halt() {
                                Ok(code) => finish(
                                    chunks,
                                    vec![code & 0xff],
                                    if stderr_by_filter { Stderr::Any } else { Stderr::Empty },
                                    End::Done,
                                    format!("halt {code}"),
                                    &events,
                                ),
                                Err(_) => finish(
                                    chunks,
                                    vec![5],
                                    Stderr::Any,
                                    End::Done,
                                    "@inconclusive: break/tailcall escaped".into(),
                                    &events,
                                ),
                            },
                        };
                    }
                }
            }
        }
    }
    let exits = if inv.exit_status {
        let code = |l: Option<bool>| match l {
            None => 4,
            Some(true) => 0,
            Some(false) => 1,
        };
        let mut v = vec![code(last_of_last_file)];
        // several files: "the last output" may be read per file or overall
        if sources.len() > 1 && !v.contains(&code(last_overall)) {
            v.push(code(last_overall));
        }
        v
    } else {
        vec![0]
    };
    finish(
        chunks,
        exits,
        if stderr_by_filter { Stderr::Any } else { Stderr::Empty },
        End::Done,
        "completed".into(),
        &events,
    )
}

// The iterator behind the RcIter is our `Source`; its flags are reached through a side channel:
// a pull that returned the PENDING/IOFAIL marker leaves a trace in thread-local state.
thread_local! {
    static PENDING: std::cell::Cell<bool> = const { std::cell::Cell::new(false) };
    static IOFAILED: std::cell::Cell<bool> = const { std::cell::Cell::new(false) };
    static UNSPEC: std::cell::Cell<bool> = const { std::cell::Cell::new(false) };
}

fn events_pending<T: ?Sized>(_rc: &RcIter<T>) -> bool {
    PENDING.with(|p| p.get())
}
fn io_failed<T: ?Sized>(_rc: &RcIter<T>) -> bool {
    IOFAILED.with(|p| p.get())
}

/// Wrapper that resets/sets the side-channel flags; used by `predict` through `Source`.
pub fn reset_flags() {
    PENDING.with(|p| p.set(false));
    IOFAILED.with(|p| p.set(false));
    UNSPEC.with(|p| p.set(false));
}

pub(crate) fn flag_pending() {
    PENDING.with(|p| p.set(true));
}
pub(crate) fn flag_iofail() {
    IOFAILED.with(|p| p.set(true));
}

#[allow(dead_code)]
fn _unused(_: VecDeque<u8>) {}
