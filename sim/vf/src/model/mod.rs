pub mod cli;
