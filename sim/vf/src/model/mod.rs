pub mod cli;
pub mod lazy;
