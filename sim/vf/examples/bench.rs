fn main() {
    let exe = std::path::PathBuf::from("/verif/sim/target-jaq/debug/jaq");
    let n: usize = std::env::args().nth(1).and_then(|s| s.parse().ok()).unwrap_or(1);
    let t0 = std::time::Instant::now();
    std::thread::scope(|s| {
        for k in 0..n {
            let exe = exe.clone();
            s.spawn(move || {
                let sb = simos::Sandbox::new(&simos::tracer::scratch_base().join(format!("w{k}")), &exe).unwrap();
                let w = simos::World {
                    files: vec![simos::FileSpec::file("w/f.json", "{\"a\": 1}\n", 0o644)],
                    cwd: "w".into(),
                    argv: vec!["-i".into(), ".a".into(), "f.json".into()],
                    ..Default::default()
                };
                for _ in 0..100 {
                    let t = std::time::Instant::now();
                    let h = simos::run(&sb, &w).unwrap();
                    if k == 0 { eprint!("{:?}/{} ", t.elapsed().as_millis(), h.ops.len()); }
                }
            });
        }
    });
    eprintln!("\ntotal {:?}", t0.elapsed());
}
