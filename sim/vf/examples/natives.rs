fn main() {
    for (name, args, _) in jaq_all::data::funs() {
        print!("{}/{} ", name, args.len());
    }
    println!();
}
