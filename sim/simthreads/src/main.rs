//! `simthreads` — C19: concurrent runs of one compiled filter equal isolated runs.
//!
//! * S0 (type level): the assertions in `static_facts` must compile.
//! * `oracle <pi>`: a fresh process that does nothing but compile program `pi` and run it on
//!   every input; prints the output streams. These are the *isolated* runs.
//! * `run <table.json> <seed> <iters> <random|pct> <dir>`: shuttle-scheduled threads sharing one
//!   `Arc<Filter>` per program; each thread's stream must equal the isolated one.
//! * `replay <table.json> <schedule-file>`: re-executes one persisted failing schedule.
use jaq_all::data::{Ctx, Data, DataKind, Filter, Runner as JaqRunner};
use jaq_all::jaq_core::Vars;
use jaq_all::jaq_std::input::RcIter;
use jaq_all::json::Val;
use serde::{Deserialize, Serialize};
use shuttle::rand::Rng;
use shuttle::sync::{Arc, Mutex};
use std::collections::BTreeMap;

#[allow(dead_code)]
mod static_facts {
    //! S0: a compiled filter is immutable shared data. If one of these bounds stops holding,
    //! this crate does not compile and the check reports class S0.
    fn send_sync<T: Send + Sync>() {}
    pub fn all() {
        send_sync::<jaq_all::data::Filter>();
        send_sync::<jaq_all::jaq_core::Filter<jaq_all::jaq_core::data::JustLut<jaq_all::json::Val>>>();
        send_sync::<jaq_all::jaq_core::Lut<jaq_all::data::DataKind>>();
        #[cfg(feature = "sync")]
        send_sync::<jaq_all::json::Val>();
    }
}

/// Terminating programs touching everything that might tempt a cache or hidden shared state.
pub const PROGRAMS: &[&str] = &[
    ".",
    ".[]?",
    "[.[]? | tostring]",
    "test(\"a\"; \"i\")",
    "test(\"a\"; \"\")",
    "test(\"A\")",
    "[match(\"(?<x>[a-z]+)\"; \"g\").captures[].string]",
    "[scan(\"[0-9]+\")]",
    "sub(\"(?<d>[0-9])\"; \"<\\(.d)>\"; \"g\")",
    "splits(\", *\")",
    "ascii_downcase, ascii_upcase",
    "label $a | label $b | (1, break $b, 2), 3",
    "[label $out | foreach (1, 2, 3, 4) as $x (0; . + $x; if . > 5 then ., break $out else . end)]",
    "def f($n): if $n <= 0 then [] else [$n] + f($n - 1) end; f(6)",
    "def fac: if . <= 1 then 1 else . * (. - 1 | fac) end; [range(1; 8) | fac]",
    "reduce range(0; 50) as $i ([]; . + [$i * $i]) | add",
    "[limit(5; repeat(1, 2))]",
    "[range(0; 10)] | map(select(. % 2 == 0)) | length",
    "to_entries?",
    "[paths]",
    "[.. | numbers]",
    "(.a, .b) = 1",
    ".[0]? |= . + 1",
    ".a.b.c = 5",
    "del(.a?, .[0]?)",
    "tojson | fromjson",
    "@base64 \"\\(.)\" | @base64d",
    "@uri \"x=\\(.)\"",
    "@sh \"\\(tostring)\"",
    "@csv \"\\([1, \"a\", null])\", @tsv \"\\([1, \"b\\tc\"])\"",
    "[1, [2, 3]] | toyaml, tocbor, toxml?",
    "\"a: [1, 2]\" | fromyaml",
    "\"<a x=\\\"1\\\">t</a>\" | fromxml | toxml",
    "1700000000 | todate, (gmtime | mktime)",
    "\"2024-02-29T12:00:00Z\" | fromdate",
    "\"10:30 2024-01-02\" | strptime(\"%H:%M %Y-%m-%d\") | mktime",
    "1700000000 | strftime(\"%A %d %B %Y\")",
    "[splits(\"a\"; \"g\")]?",
    "sort_by(.a?)?, group_by(.a?)?, unique_by(length)?",
    "[.[]? | length] | sort | (min, max, add)",
    "ltrimstr(\"a\") | rtrimstr(\"b\") | explode | implode",
    "try error(\"x\") catch ., (try (1, error({a: 1}), 2) catch .a)",
    "first(range(10; 0; -3)), [limit(3; range(0; 100))], nth(2; range(5))",
    "[., 1] | (.[0] | tojson) as $x | {($x): .[1]}",
    "path(..) | select(length > 1)",
    "getpath([\"a\", \"b\"])?, ([paths(type == \"number\")] | length)",
    "walk(if type == \"number\" then . + 1 else . end)",
    "with_entries(.value |= tostring)?",
    "@text, @json, @html \"<\\(.)>\"",
    "label $a | (1, (label $b | (2, break $a, 3)), 4)",
    "label $a | (1, 2, (label $b | (3, (label $c | (4, break $b, 5)), 6)), 7, break $a, 8)",
    "def f: label $l | (., (if . < 3 then . + 1 | f else break $l end), 10 * .); 0 | f",
    "label $out | foreach (1, 2, 3, 4, 5) as $x (0; . + $x; ., (label $in | (., break $in, 99)), if . > 5 then break $out else empty end)",
    "range(0; 6) | label $x | (., (if . % 2 == 0 then break $x else . * 10 end))",
    "[.[]?] | (map(. as $x | [$x, $x]) | add) as $d | $d | length",
    "10000000000000000000000 + 1, (1 / 3), (pow(2; 64) | tostring)",
    "(infinite | tostring), (nan | isnan), ([nan] | sort | length)",
    "[foreach range(5) as $i (null; $i; [$i, .])] | last",
    "any(.[]?; . == 1), all(.[]?; . != null), isempty(.[]?)",
    "limit(3; recurse(if . < 3 then . + 1 else empty end)?)",
    // updates that restructure a (possibly shared) value: what a handle elsewhere does or holds
    // must not show in the result, not even in the order of keys
    // (one update per program: a comma would keep a second handle to the input alive, and
    // whether a value is uniquely held is exactly what must not show)
    "del(.a)?",
    "del(.b)?",
    "del(.[0])?",
    "(.c |= empty)?",
    "(.b[1] |= del(.c))?",
    "delpaths([[\"a\"], [\"c\"]])?",
    "to_entries? | map(.key)",
    "(. + {z: 1} | del(.a) | keys_unsorted)?",
    "with_entries(select(.key != \"b\"))?",
    "(.e.f += 1)?",
    "(.b[1].d = [.b[1].c])?",
    "[.[]?] | del(.[1])? | tojson",
    // decoders working on text inside a run: a rejected document, then (in the same process,
    // perhaps on another thread) a deeply nested valid one - what one parse leaves behind must
    // not reach the next
    "try ((\"[\" * 300) | fromjson) catch \"rejected\"",
    "try ((\"{\\\"a\\\":[\" * 150) | fromjson) catch \"rejected\"",
    "((\"[\" * 100) + (\"]\" * 100)) | fromjson | tojson | length",
    "try ((\"- [\" * 40) | fromyaml) catch \"rejected\"",
    "((\"[\" * 40) + (\"]\" * 40)) | fromyaml | tojson | length",
    "try ((\"<a>\" * 60) | fromxml) catch \"rejected\"",
    "[.[]? as [$a, $b] | {a: $a, b: $b}]",
    "(.a? // null) as $x | (.b? // [null]) as [$y] | [$x, $y]",
    "tostring | ascii_downcase | test(\"NULL\"; \"ix\")",
    "[.[]? | tostring | capture(\"(?<n>[0-9]+)\")?]",
];

/// One program per filter the tree defines (natives and jq-coded definitions, discovered at run
/// time): every filter runs at least once alone in a fresh process (the oracle) and once in the
/// process where all the others run too, so state that one filter leaves behind for another
/// (a cache, a lazily initialised static shared by two of them) shows as a difference.
fn discovered() -> Vec<String> {
    let mut sigs: Vec<(String, usize)> = Vec::new();
    for (name, args, _) in jaq_all::data::funs() {
        sigs.push((name.to_string(), args.len()));
    }
    for d in jaq_all::defs() {
        sigs.push((d.name.to_string(), d.args.len()));
    }
    sigs.sort();
    sigs.dedup();
    let ident = |s: &str| {
        let s = s.strip_prefix('@').unwrap_or(s);
        s.chars().next().is_some_and(|c| c.is_ascii_alphabetic() || c == '_') && s.chars().all(|c| c.is_ascii_alphanumeric() || c == '_')
    };
    // excluded by the statement (clock, environment, input stream) or ending the run
    let skip = ["input", "inputs", "now", "env", "localtime", "strflocaltime", "mktime", "halt", "halt_error", "debug", "stderr", "debug_empty", "stderr_empty", "input_line_number"];
    let mut out = Vec::new();
    for (name, arity) in sigs {
        if !ident(&name) || skip.contains(&name.as_str()) {
            continue;
        }
        let call = |args: &[&str]| if args.is_empty() { name.clone() } else { format!("{name}({})", args.join("; ")) };
        let variants: Vec<String> = match arity {
            0 => vec![call(&[])],
            1 => vec![call(&["\"a\""]), call(&["1"])],
            2 => vec![call(&["\"a\"", "\"b\""]), call(&["1", "2"])],
            _ => vec![call(&vec!["\"a\""; arity])],
        };
        for v in variants {
            out.push(format!("[limit(8; try ({v}) catch \"E\")]"));
        }
    }
    out
}

/// Filters that take option flags get one program per flag (and a few pairs) on one and the same
/// pattern: a cache keyed too coarsely hands one program the compiled form of another.
fn flagged() -> Vec<String> {
    let mut out = Vec::new();
    let flags = ["", "g", "n", "i", "x", "s", "m", "l", "p", "gi", "gl", "il", "xs", "gn"];
    for f in flags {
        out.push(format!("[match(\"a+ ?\"; \"{f}\") | .string]"));
        out.push(format!("[scan(\"[a-z]+.\"; \"{f}\")]"));
        out.push(format!("sub(\"(?<x>a+)\"; \"<\\(.x)>\"; \"{f}\")"));
        out.push(format!("[splits(\"a+ ?\"; \"{f}\")]"));
        out.push(format!("test(\"B.N\"; \"{f}\")"));
    }
    out.into_iter().map(|p| format!("[limit(8; try (tostring | {p}) catch \"E\")]")).collect()
}

pub fn programs() -> Vec<String> {
    PROGRAMS.iter().map(|s| s.to_string()).chain(discovered()).chain(flagged()).collect()
}

pub const INPUTS: &[&str] = &[
    "null",
    "1",
    "\"Banana, aardvark,A1b22\"",
    "[1, 2, 3]",
    "{\"a\": {\"b\": {\"c\": 1}}, \"b\": [2]}",
    "[[1, 2], [3, 4]]",
    "[{\"a\": 2, \"b\": \"x\"}, {\"a\": 1, \"b\": \"yy\"}]",
    "\"ab\"",
    "\"caaat AAa\\nbanana Ban\\nB\\nN aa\"",
    "\"a &lt;b&gt; &amp; &quot;q&quot; <i> x%20y%2Fz aGVsbG8= ON2WG2DFON2A====\"",
    // an object with enough keys for the order after a deletion to be visible
    "{\"a\": 1, \"b\": [2, {\"c\": 3, \"d\": 4, \"e\": 5}], \"c\": \"x\", \"d\": null, \"e\": {\"f\": 1}}",
    // collections with a valid prefix and an invalid tail: a filter that folds over the elements
    // fails part-way, and what the failed run leaves behind (a scratch buffer, a half-built
    // result) must not reach the next run on that thread. They come last, so that the oracle
    // process of a program has run nothing that failed part-way before its other inputs.
    "[67, 68]",
    "[65, 66, 1114112]",
    "[\"a\", \"b\", 1, null, [2]]",
];

#[derive(Serialize, Deserialize, Clone, Debug)]
pub struct Table {
    pub programs: Vec<String>,
    pub inputs: Vec<String>,
    /// table[pi][xi] = output stream (each item "= json" or "! error"), capped
    pub table: Vec<Vec<Vec<String>>>,
}

const CAP: usize = 64;

fn compile(code: &str) -> Result<Filter, String> {
    jaq_all::data::compile(code).map_err(|e| format!("{} error(s)", e.len()))
}

fn parse(x: &str) -> Val {
    jaq_all::fmts::read::json::parse_single(x.as_bytes()).expect("input is JSON")
}

/// Run `filter` on `input`, handing every item to `each` (which may yield to the scheduler).
fn run_stream(filter: &Filter, input: Val, mut each: impl FnMut()) -> Vec<String> {
    let runner = JaqRunner::default();
    let empty: Box<dyn Iterator<Item = Result<Val, String>>> = Box::new(std::iter::empty());
    let rc = RcIter::new(empty);
    let data = Data { runner: &runner, lut: &filter.lut, inputs: &rc };
    let ctx = Ctx::new(&data, Vars::new([]));
    let mut out = Vec::new();
    let mut it = filter.id.run((ctx, input));
    loop {
        each();
        match it.next() {
            None => break,
            Some(Ok(v)) => out.push(format!("= {v}")),
            Some(Err(e)) => {
                out.push(match e.get_err() {
                    Ok(e) => format!("! {e}"),
                    Err(_) => "! <non-error exception>".to_string(),
                });
                break;
            }
        }
        if out.len() >= CAP {
            break;
        }
    }
    out
}

struct Shared {
    table: Table,
    filters: Vec<Option<Filter>>,
    /// order in which threads pulled (thread index per pull): the interleaving
    order: Mutex<Vec<u8>>,
    stats: std::sync::Mutex<Stats>,
}

#[derive(Default, Serialize, Clone)]
struct Stats {
    schedules: u64,
    threads: u64,
    pulls: u64,
    recompiles: u64,
    shared_value_runs: u64,
    interleavings: std::collections::BTreeSet<u64>,
    nontrivial_interleavings: u64,
}

fn fnv(b: &[u8]) -> u64 {
    let mut h = 0xcbf29ce484222325u64;
    for x in b {
        h ^= *x as u64;
        h = h.wrapping_mul(0x100000001b3);
    }
    h
}

fn scenario(sh: &Arc<Shared>) {
    let mut rng = shuttle::rand::thread_rng();
    let t: usize = rng.gen_range(2..=4);
    sh.order.lock().unwrap().clear();
    #[cfg(feature = "sync")]
    let shared_input: Option<(usize, Val)> = {
        let xi = rng.gen_range(0..sh.table.inputs.len());
        Some((xi, parse(&sh.table.inputs[xi])))
    };
    let mut handles = Vec::new();
    for k in 0..t {
        let np = sh.table.programs.len();
        let pi = loop {
            let p = rng.gen_range(0..np);
            if sh.filters[p].is_some() {
                break p;
            }
        };
        let xi = rng.gen_range(0..sh.table.inputs.len());
        let recompile = rng.gen_range(0..10) == 0;
        let pi2 = rng.gen_range(0..np);
        let sh = sh.clone();
        #[cfg(feature = "sync")]
        let shared = if rng.gen_range(0..2) == 0 { shared_input.clone() } else { None };
        handles.push(shuttle::thread::spawn(move || {
            let filter = sh.filters[pi].as_ref().unwrap();
            #[cfg(feature = "sync")]
            let (xi, input) = match shared {
                Some((xi, v)) => {
                    sh.stats.lock().unwrap().shared_value_runs += 1;
                    (xi, v)
                }
                None => (xi, parse(&sh.table.inputs[xi])),
            };
            #[cfg(not(feature = "sync"))]
            let input = parse(&sh.table.inputs[xi]);
            let mut pulls = 0u64;
            let got = run_stream(filter, input, || {
                // the only scheduling points: between pulls
                shuttle::thread::sleep(std::time::Duration::from_millis(0));
                sh.order.lock().unwrap().push(k as u8);
                pulls += 1;
            });
            sh.stats.lock().unwrap().pulls += pulls;
            let want = &sh.table.table[pi][xi];
            if &got != want {
                panic!(
                    "MISMATCH {}",
                    serde_json::json!({"program": sh.table.programs[pi], "input": sh.table.inputs[xi], "concurrent": got, "isolated": want})
                );
            }
            if recompile {
                // compiling another filter in the middle of other threads' runs
                shuttle::thread::sleep(std::time::Duration::from_millis(0));
                sh.stats.lock().unwrap().recompiles += 1;
                match (compile(&sh.table.programs[pi2]), sh.filters[pi2].is_some()) {
                    (Ok(f), true) => {
                        let got = run_stream(&f, parse(&sh.table.inputs[xi]), || {
                            shuttle::thread::sleep(std::time::Duration::from_millis(0));
                        });
                        let want = &sh.table.table[pi2][xi];
                        if &got != want {
                            panic!(
                                "MISMATCH {}",
                                serde_json::json!({"program": sh.table.programs[pi2], "input": sh.table.inputs[xi], "recompiled_concurrently": got, "isolated": want})
                            );
                        }
                    }
                    (Err(_), false) => {}
                    (r, was) => panic!(
                        "MISMATCH {}",
                        serde_json::json!({"program": sh.table.programs[pi2], "compiles_concurrently": r.is_ok(), "compiles_isolated": was})
                    ),
                }
            }
        }));
    }
    for h in handles {
        h.join().unwrap();
    }
    #[cfg(feature = "sync")]
    if let Some((xi, v)) = shared_input {
        // the shared value itself is unchanged by whatever the threads did with their handles
        let now = format!("= {v}");
        let orig = format!("= {}", parse(&sh.table.inputs[xi]));
        if now != orig {
            panic!("MISMATCH {}", serde_json::json!({"shared_value_changed": now, "original": orig}));
        }
    }
    let order = sh.order.lock().unwrap().clone();
    let mut st = sh.stats.lock().unwrap();
    st.schedules += 1;
    st.threads += t as u64;
    // non-trivial: at least two threads alternate (not a concatenation of complete runs)
    let mut switches = 0;
    for w in order.windows(2) {
        if w[0] != w[1] {
            switches += 1;
        }
    }
    if switches >= t {
        st.nontrivial_interleavings += 1;
    }
    st.interleavings.insert(fnv(&order));
}

fn load_shared(table_path: &str) -> Arc<Shared> {
    let table: Table = serde_json::from_str(&std::fs::read_to_string(table_path).expect("table")).expect("table json");
    let filters = table.programs.iter().map(|p| compile(p).ok()).collect();
    Arc::new(Shared { table, filters, order: Mutex::new(Vec::new()), stats: std::sync::Mutex::new(Stats::default()) })
}

fn config(dir: Option<&str>) -> shuttle::Config {
    let mut cfg = shuttle::Config::new();
    cfg.stack_size = 8 << 20;
    cfg.failure_persistence = match dir {
        Some(d) => shuttle::FailurePersistence::File(Some(d.into())),
        None => shuttle::FailurePersistence::Print,
    };
    cfg.max_steps = shuttle::MaxSteps::FailAfter(2_000_000);
    cfg
}

fn main() {
    static_facts::all();
    let args: Vec<String> = std::env::args().skip(1).collect();
    let a = |i: usize| args.get(i).map(|s| s.as_str()).unwrap_or("");
    match a(0) {
        "list" => {
            println!("{}", serde_json::json!({"programs": programs(), "inputs": INPUTS, "sync": cfg!(feature = "sync")}));
        }
        "oracle" => {
            // a fresh process per program: compile it, run it on every input, nothing else
            let pi: usize = a(1).parse().expect("pi");
            let out: Vec<Vec<String>> = match compile(&programs()[pi]) {
                Ok(f) => {
                    // (all inputs are decoded before the program runs at all: the oracle is about
                    // the program, not about what an earlier run did to the decoder)
                    let inputs: Vec<Val> = INPUTS.iter().map(|x| parse(x)).collect();
                    inputs.into_iter().map(|x| run_stream(&f, x, || {})).collect()
                }
                Err(e) => INPUTS.iter().map(|_| vec![format!("# does not compile: {e}")]).collect(),
            };
            println!("{}", serde_json::to_string(&out).unwrap());
        }
        "run" => {
            let sh = load_shared(a(1));
            let seed: u64 = a(2).parse().expect("seed");
            let iters: usize = a(3).parse().expect("iters");
            let dir = a(5);
            let sh2 = sh.clone();
            let f = move || scenario(&sh2);
            match a(4) {
                "pct" => shuttle::Runner::new(shuttle::scheduler::PctScheduler::new_from_seed(seed, 3, iters), config(Some(dir))).run(f),
                _ => shuttle::Runner::new(shuttle::scheduler::RandomScheduler::new_from_seed(seed, iters), config(Some(dir))).run(f),
            };
            let st = sh.stats.lock().unwrap().clone();
            println!(
                "STATS {}",
                serde_json::json!({"schedules": st.schedules, "threads": st.threads, "pulls": st.pulls, "recompiles": st.recompiles,
                    "shared_value_runs": st.shared_value_runs, "distinct_interleavings": st.interleavings.len(),
                    "interleaving_hashes": st.interleavings.iter().take(100_000).collect::<Vec<_>>(),
                    "nontrivial_interleavings": st.nontrivial_interleavings})
            );
        }
        "replay" => {
            let sh = load_shared(a(1));
            let sched = shuttle::scheduler::ReplayScheduler::new_from_file(a(2)).expect("schedule file");
            let sh2 = sh.clone();
            shuttle::Runner::new(sched, config(None)).run(move || scenario(&sh2));
            println!("replay: no mismatch");
        }
        _ => {
            eprintln!("usage: simthreads list | oracle <pi> <xi> | run <table> <seed> <iters> <random|pct> <dir> | replay <table> <schedule>");
            std::process::exit(2);
        }
    }
    let _: BTreeMap<(), ()> = BTreeMap::new();
}
