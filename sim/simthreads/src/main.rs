fn main(){}
