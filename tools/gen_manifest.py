#!/usr/bin/env python3
"""Regenerates /verif/MANIFEST.json from the table below (kept in one place so that the
claimed / not-applicable split always covers all 20 properties)."""
import json, sys

CLAIMED = {
 "C18": dict(
  level="fault_enumeration", design="§3 C18", engine="simos",
  technique="deterministic simulation with fault injection: the real jaq binary under a ptrace OS simulator; kill-point and errno sweeps over the fault-free --in-place trace, end-state invariants",
  text="Per generated world (1-3 input files, modes, decoys, filters that succeed/fail at value k, parse errors at value k) the fault-free -i trace defines a finite fault space (kill before every counted syscall, torn writes, every errno of each call's menu, EINTR/short I/O, a mount boundary that makes cross-directory renames fail). Thorough sweeps that space completely per world, quick samples it. After every run the file system is compared with the only allowed states (original bytes / complete output of the same invocation without -i, prefix order over files, modes, no left-overs, bystanders untouched). This is enumeration of crash points and failures, which is what the property quantifies over; it is evidence over the sampled worlds, not a proof over all programs.",
  note="Trusted: kernel, libc, the ptrace tracer, and the binary's own non-in-place output as definition of 'complete output' (the statement's own definition). A killed process is modelled, not power loss."),
 "C03": dict(
  level="exploration", design="§3 C03", engine="simlib",
  technique="deterministic simulation: the tree's compiler and interpreter run generated effectful stream terms against a logged, fault-injecting input stream and a simulated consumer that cancels after exactly k outputs; the recorded effect history is checked for containment in the prefix of a definitional lazy reference trace (refinement), with crash/hang isolation per case",
  text="Seeded generation of stream terms over every stream combinator the statement names (comma, pipe, bindings, if, //, try/catch, ?, label/break, first, limit, skip, nth, isempty, any/all, foreach/reduce over finite and endless sources incl. inputs, array collection, recursive definitions, repeat, recurse, while, until, zero-step range) with observable effects in stream positions (probe markers, bombs, errors, input consumption, endless probed loops). Each term is compiled and run by the tree with two extra natives, on an input stream that ends, fails or is endless; the consumer pulls exactly k outputs for every k up to min(#outputs, 10) and then drops the stream. Oracle: effects logged when output k is delivered are contained in those the definitional left-to-right trace (an independent lazy evaluator) orders before output k; no bomb reached, bounded work per output (fuel; a worker process that overflows its stack, exhausts memory or hangs is a violation with the case as replay); dropping performs no effect. History-based search over (term, cut, input-fault) - evidence, not proof. Output-value disagreements are counted as inconclusive (C01 is not claimed).",
  note="Trusted: the lazy reference evaluator (model/lazy.rs, ~600 lines) and the probe natives. Effects are never placed in index/key positions (evaluation order there is C01's subject)."),
 "C05": dict(
  level="exploration", design="§3 C05", engine="simlib+simos",
  technique="deterministic simulation with fault injection: the tree's readers, parsers, from* filters and writers driven through seeded fault-injecting Read/BufRead/Write seams (chunking, EINTR, hard errors, short writes, flush failures) on documents with injected storage damage (truncation, bit flips, zeroed/duplicated/swapped blocks), each case isolated in a worker process; plus the real binary under errno injection at the system-call boundary",
  text="RESTRICTED SCOPE - the stream-facing surface of the statement only: documents of every supported format met as faulty byte streams, stored program text (filter files, module files) met after the same storage damage (compiled and its diagnostics rendered, never run), writers meeting faulty sinks, and the command line under injected I/O faults end in values or a reported error - no panic (catch_unwind, debug assertions and overflow checks on), no crash or hang of the isolated worker process, a bounded number of pulls up to the end or first error, harmless polling after the end, plain bytes on a benign sink and the error on a failing one; the CLI under an injected errno never exits 101, dies of a signal or hangs. NOT decided here: arbitrary argument values to built-in filters, and filter text beyond what storage damage of the seed programs reaches (no grammar-aware search) - a search over inputs with no fault, schedule or history in it, which this technique does not decide (said so in DESIGN.md rather than relabelling a fuzzer).",
  note="Trusted: the fault-injecting seams (simlib/io.rs), the ptrace tracer. Documents are bounded (8 KiB), so nesting depth cannot legitimately exhaust a 1 GiB stack."),
 "C06": dict(
  level="exploration", design="§3 C06", engine="simos",
  technique="deterministic simulation: the real jaq binary in a simulated world with honeypot files, complete system-call history checked against an access policy; the set of filters is discovered from the tree at run time; injected faults make the time-zone database unreadable",
  text="Every run is one process of the real binary under the ptrace simulator, which logs every system call (raw ones included), denies network/process/kernel calls, and compares the file tree before and after. Workload: every filter the tree defines (library natives, natives found in jaq/src except repl, all jq-coded definitions - discovered at run time, so a new built-in is exercised without touching the harness) called with path-, URL- and command-like strings and hostile documents as input and arguments; every decoder on hostile XML/YAML/CBOR/TOML/CSV/JSON documents via files, stdin and from*/to* filters; module and data imports (so allowed reads are exercised) and --in-place (documented exception). Policy: no forbidden call, no mutation outside the -i exception, no access of any kind to a path that occurs only in data or arguments, no open/stat of a path the invocation does not name (start-up set measured, time-zone database read-only), unchanged tree. Sampling of filters x arguments x documents: evidence, not proof.",
  note="Trusted: kernel, ptrace tracer, the policy (c06.rs). Effects needing no system call are invisible (none known); vDSO clock reads are not observable and are not file/network/process access. `repl` excluded by name."),
 "C16": dict(
  level="exploration", design="§3 C16", engine="simos",
  technique="deterministic simulation with fault injection: the real jaq binary in a simulated file tree and environment (HOME, $ORIGIN, cwd, -L lists) with copies of every module planted in seeded subsets of the candidate directories; open/stat/read failures injected on the best-ranked candidate; loaded copy compared with a candidate-order model",
  text="Restricted scope: decides the look-up sentence of the statement (search metadata relative to the importing file or the cwd, before -L paths or the defaults; ~ and $ORIGIN expansion; extension appended only when none is given; absolute paths refused; cycles reported) and the load-once clause (opens per module file bounded by its in-degree on layered diamonds), by running the real binary on seeded file trees in which every candidate copy announces its own location, with symlinked, dangling, looping and directory candidates, decoys in unsearched directories, library modules that carry include and data-import directives of their own (resolved relative to the module file, the data bound in that module only - observed through which file's contents appear), and injected open/stat/read failures on the winning candidate (outcome: status 3 or the next candidate in model order, never another copy, a panic or a hang). NOT decided: 'a modular program computes what its inlined form computes' - a pure function of the module texts with no schedule or fault in it.",
  note="Trusted: kernel, libc, ptrace tracer, the candidate-order model (c16.rs, ~60 lines). The equation modular = inlined is not claimed."),
 "C17": dict(
  level="exploration", design="§3 C17", engine="simos",
  technique="deterministic simulation with fault injection: the real jaq binary under a ptrace OS simulator, seeded stdin delivery schedules (chunking, EINTR, stall), short/failed writes, failed reads/opens; stdout/exit/stderr history compared with an executable reference model of the command line",
  text="Seeded runs, each drawing (swarm-style) an option subset in a random documented spelling, a filter from a family exercising the main-loop/input/inputs accounting, halt, error, limit and label, an input stream over stdin or 1-3 files in every supported format (valid or truncated) and a stratum: fault-free, benign (every stdin chunking incl. 1 byte and mid-token, EINTR on reads and writes, short writes, mmap failure forcing the fallback read path) where stdout, stderr-emptiness and exit status must equal the reference model exactly; stall (stdin stops arriving after k values: everything derivable from the delivered prefix must already be on stdout, and runs that need no more input must terminate); failing reads, failing n-th stdout write (output must be a prefix of the model's, status 2, diagnostic), unwritable stderr, failing open of file j, malformed command lines (usage errors: status 2, diagnostic, no output). A second, in-process stratum runs the pieces main.rs composes for standard input - the streaming readers over a fault-injecting BufRead (chunks of 1..64 bytes, Interrupted, read error at the end), data::run with input/inputs, the value writers into a sink with short and interrupted writes - for 30 000 (thorough: 1 000 000) seeded schedules against the same model; it reaches far more schedules but not main.rs/cli.rs. This is sampling of schedules and faults (evidence, not proof); violations are minimised and written as replayable worlds / cases.",
  note="Trusted: kernel, libc, ptrace tracer, the reference model (vf/src/model/cli.rs, transcribed from docs/cli.dj); the tree's interpreter, slice parsers and value writers are shared by model and system (C01/C07/C14 not claimed). stdout/stderr are never terminals in the simulator."),
 "C19": dict(
  level="exploration", design="§3 C19", engine="simthreads",
  technique="deterministic simulation of thread schedules: shuttle's seeded random and PCT schedulers run 2-4 threads sharing one compiled filter (and, in the thread-safe value flavour, one value), every stream compared with the stream computed alone in a fresh process; a second stratum runs real threads under Miri's seeded preemptive scheduler; failing schedules / seeds are persisted and replayed exactly; Send + Sync facts asserted at compile time against the tree",
  text="S0 (static): the simthreads crate asserts Filter<DataKind>, Filter<JustLut<Val>>, Lut and (with jaq-json/sync) Val to be Send + Sync and is compiled against the working tree in both flavours; a build failure naming these bounds is the violation. S1 (schedules): for 64 hand-written terminating programs (regex with differing flags, lazily created nested labels, closures, folds, updates, paths, codecs, formats, dates) plus one or two calls of every filter the tree defines (discovered at run time) x 9 inputs the isolated output stream is computed in a fresh process per pair; shuttle then runs seeded random and PCT schedules in which threads share one Arc<Filter> per program, pull one output per scheduling step, sometimes compile and run another program in between, and (sync flavour) work on one shared value; every stream must equal the isolated one, compilation must succeed iff it does alone, the shared value must be unchanged. S2 (preemption): 3 real threads sharing the compiled filters of 10 core-language programs (lazily created nested labels, folds, closures, recursion, updates) under Miri, whose scheduler preempts at basic-block granularity from a seed (12 seeds quick; thorough: 64 seeds and ten more programs that call natives of jaq-std/jaq-json directly; one seed = one exactly repeatable execution) and which also reports data races and undefined behaviour; every stream must equal the sequential one. Seeded search over schedules: evidence, not proof. jaq has no synchronisation of its own, so shuttle interleaves only at the scheduling points the harness inserts (between pulls, around compilation); interleavings inside one interpreter call are covered by the much smaller Miri stratum only.",
  note="Trusted: shuttle's scheduler and replay, Miri's scheduler and race detector, the isolated-process oracle. `now`, `env`, `input(s)` are excluded as the statement allows. Data races inside a single native call are not explorable by shuttle (no shuttle primitives inside jaq)."),
}

NA = {
 "C01": "pure function of (program, input): deciding it needs a reference interpreter and program generation (differential testing); no schedule, clock, fault or history is involved, so deterministic simulation has nothing to vary",
 "C02": "pure function of (path expression, input); no schedule, fault or interleaving in the statement",
 "C04": "resource bound (constant stack/heap) of a deterministic computation; allocation failure is not what the property is about, and there is no schedule or fault to inject",
 "C07": "pure print/parse identity on values; the one I/O-dependent facet (streaming reader = slice parser for every chunking) is checked inside C17's benign stratum, not claimed here",
 "C08": "pure relation on values (total order, key interchangeability)",
 "C09": "pure arithmetic laws",
 "C10": "pure indexing/slicing/update position model",
 "C11": "pure equalities between programs; the history-dependent part (laziness) is C03",
 "C12": "pure invariants of collection built-ins",
 "C13": "pure string codecs and escaping",
 "C14": "pure format round trips",
 "C15": "pure function of the filter text (grammar, precedence, sugar)",
 "C20": "pure calendar arithmetic on numbers; the statement mentions neither the clock nor the local zone, and feeding numbers through a simulated clock would be input generation in disguise",
}

PENDING = {
}

def main():
    checks = []
    for pid, c in sorted(CLAIMED.items()):
        checks.append({
            "property_id": pid,
            "quick_cmd": f"./vf check {pid} --tier quick",
            "thorough_cmd": f"./vf check {pid} --tier thorough",
            "evidence_file": f"/verif/evidence/{pid}.json",
            "replay_cmd_template": "./vf replay {path}",
            "engine": c["engine"],
            "level_claimed": {"category": c["level"], "text": c["text"], "design_ref": c["design"]},
            "level_note": c["note"],
            "technique": c["technique"],
        })
    na = [{"property_id": k, "reason": v} for k, v in sorted({**NA, **{k: v for k, v in PENDING.items() if k not in CLAIMED}}.items())]
    ids = set(CLAIMED) | {x["property_id"] for x in na}
    assert ids == {f"C{i:02d}" for i in range(1, 21)}, sorted(ids)
    m = {
        "version": 1,
        "setup_cmd": "./vf setup",
        "hooks": {
            "guard": "jaq_verif",
            "enable": "none needed: no hook exists in /repo; the simulator intercepts the shipped binary at the system-call boundary (ptrace) and the library crates through their public Read/Write/iterator/DataT seams",
            "baseline_off_cmd": "cd /repo && cargo test --workspace --no-fail-fast --offline",
            "source_commits": [],
            "add_only": True,
        },
        "engines": [
            {"name": "simos", "path": "/verif/sim/simos", "serves_properties": sorted(p for p, c in CLAIMED.items() if "simos" in c["engine"]),
             "kind_free_text": "ptrace-based deterministic OS simulator around the real jaq binary: world = files+argv+env+stdin script+fault plan; logs every syscall, injects errno/short/EINTR/kill/torn-write/stall/mount-boundary faults"},
            {"name": "simlib", "path": "/verif/sim/vf/src/simlib", "serves_properties": sorted(p for p, c in CLAIMED.items() if "simlib" in c["engine"]),
             "kind_free_text": "in-process seams for the library crates: fault-injecting Read/BufRead/Write, logged input iterator, effect probes via custom natives"},
            {"name": "simthreads", "path": "/verif/sim/simthreads", "serves_properties": sorted(p for p, c in CLAIMED.items() if "simthreads" in c["engine"]),
             "kind_free_text": "shuttle-scheduled threads sharing one compiled filter"},
        ],
        "checks": checks,
        "not_applicable": na,
        "notes": "All checks: exit 0 held / 1 violation (VIOLATION property=<id> replay=<path>) / 2 harness error. VERIF_SEED selects the seed (default 1). Known findings: /verif/findings/known_findings.json.",
    }
    json.dump(m, open("/verif/MANIFEST.json", "w"), indent=1)
    print("claimed:", sorted(CLAIMED), "n/a:", len(na))

main()
