#!/bin/bash
# Determinism self-test: every check is run twice per seed in separate processes, at two
# different worker counts, and the per-run history digests are compared.
# usage: selftest_determinism.sh [ids...]   (default: all claimed checks)   env: SEEDS="1 2 3" SCALE=0.2
set -u
cd /verif || exit 2
IDS="${*:-C18 C17 C16 C06 C03 C05 C19}"
SEEDS="${SEEDS:-1 2 3}"
SCALE="${SCALE:-0.2}"
./vf setup >/dev/null || exit 2
TMP="$(mktemp -d "${TMPDIR:-/var/tmp}/vf-det.XXXXXX")"
trap 'rm -rf "$TMP"' EXIT
bad=0; total=0
for id in $IDS; do
  for seed in $SEEDS; do
    VF_DRY=1 VF_SCALE=$SCALE VERIF_SEED=$seed VF_WORKERS=16 VF_SIMOS_WORKERS=4 VF_DIGEST_OUT="$TMP/a" sim/target/debug/vf check "$id" --tier quick >"$TMP/a.out" 2>&1
    VF_DRY=1 VF_SCALE=$SCALE VERIF_SEED=$seed VF_WORKERS=5  VF_SIMOS_WORKERS=2 VF_DIGEST_OUT="$TMP/b" sim/target/debug/vf check "$id" --tier quick >"$TMP/b.out" 2>&1
    n=$(wc -l < "$TMP/a"); total=$((total+n))
    if cmp -s "$TMP/a" "$TMP/b"; then
      echo "deterministic: $id seed=$seed runs=$n"
    else
      d=$(diff "$TMP/a" "$TMP/b" | grep -c '^[<>]')
      echo "DIVERGED: $id seed=$seed runs=$n differing_lines=$d"; diff "$TMP/a" "$TMP/b" | head -6
      bad=$((bad+1))
    fi
  done
done
echo "determinism self-test: $total run digests compared, $bad diverging (check, seed) pairs"
exit $((bad > 0))
