#!/bin/bash
# usage: run_seeded.sh [dir ...] : applies each seeded change to /repo, runs the quick check of the property it
# breaks (evidence and replays not written), undoes it, and prints one line per change.
set -u
cd /verif || exit 2
DIRS="${*:-seeded/*}"
for d in $DIRS; do
  id=$(basename "$d"); prop=${id:0:3}
  [ -f "$d/meta.json" ] && prop=$(python3 -c "import json,sys; print(json.load(open('$d/meta.json'))['property'])")
  if ! git -C /repo diff --quiet; then echo "repo dirty, refusing"; exit 2; fi
  git -C /repo apply "$(realpath "$d")/patch.diff" || { echo "$id: patch does not apply"; continue; }
  out=$(VF_DRY=1 ./vf check "$prop" --tier "${TIER:-quick}" 2>&1); rc=$?
  git -C /repo checkout -- . ; git -C /repo clean -fdq -- jaq jaq-core jaq-std jaq-json jaq-fmts jaq-all docs 2>/dev/null
  first=$(echo "$out" | grep -m1 -E "VIOLATION|HARNESS" | cut -c1-260)
  echo "$id property=$prop exit=$rc $( [ $rc -eq 1 ] && echo DETECTED || echo not-detected ) :: $first"
done
