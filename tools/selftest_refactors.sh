#!/bin/bash
# Property-preserving changes must stay silent: applies each refactors/*.patch to /repo, runs every
# quick check (nothing written to evidence/ or replays/), undoes the patch. Prints one line per pair.
set -u
cd /verif || exit 2
IDS="${IDS:-C18 C17 C16 C06 C03 C05 C19}"
bad=0
for p in ${*:-refactors/*.patch}; do
  if ! git -C /repo diff --quiet; then echo "repo dirty, refusing"; exit 2; fi
  git -C /repo apply "$(realpath "$p")" || { echo "$p: does not apply"; bad=$((bad+1)); continue; }
  for id in $IDS; do
    out=$(VF_DRY=1 ./vf check "$id" --tier quick 2>&1); rc=$?
    if [ $rc -eq 0 ]; then echo "silent: $(basename "$p" .patch) $id"; else
      echo "ALARM: $(basename "$p" .patch) $id exit=$rc :: $(echo "$out" | grep -m2 -E 'VIOLATION|HARNESS' | cut -c1-400)"; bad=$((bad+1)); fi
  done
  git -C /repo checkout -- .
done
echo "refactor self-test: $bad alarms"
exit $((bad > 0))
