#!/bin/bash
# usage: try_mutant.sh <patch> <property id> [tier]
# Applies a patch to /repo, runs the property's check (evidence not written), restores /repo.
set -u
P="$1"; ID="$2"; TIER="${3:-quick}"
cd /repo || exit 2
if ! git diff --quiet; then echo "repo dirty, refusing"; exit 2; fi
git apply "$P" || { echo "patch does not apply"; exit 2; }
trap 'git -C /repo checkout -- . ; git -C /repo clean -fdq -- jaq jaq-core jaq-std jaq-json jaq-fmts jaq-all 2>/dev/null' EXIT
cd /verif
VF_DRY=1 ./vf check "$ID" --tier "$TIER" 2>&1 | grep -E "VIOLATION|KNOWN|HARNESS|tier=" | cut -c1-400 | head -8
echo "exit=${PIPESTATUS[0]}"
