#!/bin/bash
# usage: verify_seeded.sh <worktree> : confirms a seeded change (compiles, suite passes, demo fails with / passes without)
set -u
W="$1"; cd "$W" || exit 2
export CARGO_NET_OFFLINE=true
echo "== $W"
git status --short | grep -v '^??' | head
echo "-- build"; cargo build --offline -q -p jaq 2>&1 | tail -3; echo "build_rc=$?"
echo "-- test suite (with change)"
cargo test --workspace --no-fail-fast --offline 2>&1 | grep -E "^test result" | awk '{p+=$4; f+=$6} END {print "passed="p" failed="f}'
echo "-- demo with change"; timeout 900 bash demo/demo.sh >/tmp/demo_with.log 2>&1; echo "demo_with_rc=$?"
git apply -R patch.diff || { echo "cannot reverse patch"; exit 2; }
echo "-- demo without change"; timeout 900 bash demo/demo.sh >/tmp/demo_without.log 2>&1; echo "demo_without_rc=$?"
git apply patch.diff || echo "cannot re-apply"
