#!/bin/bash
# Sensitivity self-test: every mutants/<IDS>-name.patch must make the checks named in its prefix
# (e.g. C05-C17-...) fail in the quick tier. Applies to /repo, runs with VF_DRY=1, undoes.
set -u
cd /verif || exit 2
missed=0
for p in ${*:-mutants/*.patch}; do
  name=$(basename "$p" .patch)
  ids=$(echo "$name" | grep -oE '^(C[0-9]{2}-)+' | tr '-' ' ')
  for id in $ids; do
    if ! git -C /repo diff --quiet; then echo "repo dirty, refusing"; exit 2; fi
    git -C /repo apply "$(realpath "$p")" || { echo "$name: does not apply"; missed=$((missed+1)); continue; }
    out=$(VF_DRY=1 VF_SCALE=${SCALE:-1} ./vf check "$id" --tier quick 2>&1); rc=$?
    git -C /repo checkout -- .
    if [ $rc -eq 1 ]; then echo "caught: $name by $id :: $(echo "$out" | grep -m1 VIOLATION | grep -oE 'class=[A-Z0-9]+')"
    else echo "MISSED: $name by $id (exit $rc) :: $(echo "$out" | grep -m1 -E 'HARNESS|VIOLATION' | cut -c1-200)"; missed=$((missed+1)); fi
  done
done
echo "sensitivity self-test: $missed missed"
exit $((missed > 0))
