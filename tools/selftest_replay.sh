#!/bin/bash
# Replay self-test: for a few deliberate breaks, let the check write its replay file, then
#  (1) replay it with the break still applied  -> must report the violation again (exit 1),
#  (2) replay it on the restored tree           -> must not report it (exit 0, or 2 "diverged").
set -u
cd /verif || exit 2
bad=0
for spec in "C18 mutants/C18-copy-back-not-rename.patch" "C17 mutants/C17-revert-stderr-status-fix.patch" "C16 mutants/C16-libpaths-before-meta.patch" \
            "C06 mutants/C06-native-reads-file.patch" "C03 mutants/C03-limit-one-more.patch" "C05 mutants/C05-C17-revert-yaml-poll-fix.patch" \
            "C19 mutants/C19-label-ids-from-global-counter.patch"; do
  set -- $spec; id=$1; patch=$2
  if ! git -C /repo diff --quiet; then echo "repo dirty, refusing"; exit 2; fi
  rm -f replays/$id-*.json
  git -C /repo apply "$(realpath "$patch")" || { echo "$patch does not apply"; bad=$((bad+1)); continue; }
  VF_SCALE=${SCALE:-0.3} ./vf check "$id" --tier quick >/tmp/replay_sel.out 2>&1
  file=$(grep -m1 -oE 'replay=[^ ]+' /tmp/replay_sel.out | cut -d= -f2)
  if [ -z "$file" ] || [ ! -f "$file" ]; then echo "FAIL: $id wrote no replay file under $patch"; bad=$((bad+1)); git -C /repo checkout -- .; continue; fi
  ./vf replay "$file" >/tmp/replay_a.out 2>&1; ra=$?
  git -C /repo checkout -- .
  ./vf replay "$file" >/tmp/replay_b.out 2>&1; rb=$?
  steps=$(python3 -c "import json,sys; print(json.load(open('$file')).get('minimised_steps'))")
  if [ $ra -eq 1 ] && [ $rb -ne 1 ]; then echo "ok: $id $(basename $file): reproduced with the break (exit 1), not on the restored tree (exit $rb); minimisation steps: $steps"
  else echo "FAIL: $id $(basename $file): with break exit $ra, restored exit $rb :: $(tail -2 /tmp/replay_a.out | cut -c1-200)"; bad=$((bad+1)); fi
done
# evidence files were rewritten by broken runs: restore them
git checkout -- evidence 2>/dev/null
echo "replay self-test: $bad failures"
exit $((bad > 0))
